"""C04 Numeric operators compute Python's results.

Domain (enumerated, every run): {operator / builtin} x {operand form combination}, forms =
runtime variables of type int / nat / float / bool and literals (non-negative int, negative
int, float, bool) with at least one variable per cell.  A cell that /repo's checker rejects is
outside the domain (the accepted cells and their result types are recorded in the evidence).
For every accepted cell a vector of operand pairs is evaluated by ONE compiled program (helper
`op(a, b)` called from `main` in a loop over constant arrays, so the operands are runtime
values for Guppy): a fixed core cross product of small / extreme values plus Hypothesis-drawn
boundary and random-magnitude values.  Operands outside the statement's definedness are never
evaluated.  Oracle: CPython on the same operands, coerced to the join type of the cell
(nat < int < float), reduced modulo 2^64 into the result type.

Cells that need `ffloor` (float // % divmod) run in single-call constant form (one pair per
program; the installed selene only folds one such call) or count as toolchain-unsupported.
"""
import itertools
import math
import operator
import os
import struct
import sys

sys.path.insert(0, os.path.dirname(os.path.dirname(os.path.abspath(__file__))))
from vlib import harness  # noqa: E402

PROP = "C04"
M64 = 1 << 64
I63 = 1 << 63
F53 = 1 << 53

# Confirmed finding classes (see the final report of this check / known_findings).  A pair in
# one of these classes is left out *per operand pair* (ctx.exclude) while the class is listed
# here; every other pair of the same cell is still checked.  `C04_EXCLUDE=none` (or a comma
# list) overrides the switch for demonstrations.
EXCLUDE = {
    "int.floordiv.neg_divisor",
    "int.mod.neg_divisor",
    "int.divmod.neg_divisor",
    "int.rshift.neg_lhs",
    # "nat.divmod.invalid_hugr" was excluded until the defect was fixed in /repo (91b8fcc)
    "float.floordiv.inexact_quotient",
    "float.mod.inexact_quotient",
    "float.mod.rounded_product",
    "float.mod.zero_sign",
    "float.divmod.inexact_quotient",
    "float.divmod.rounded_product",
    "float.divmod.zero_sign",
}
if os.environ.get("C04_EXCLUDE") is not None:
    _e = os.environ["C04_EXCLUDE"].strip()
    EXCLUDE = set() if _e in ("", "none") else {x.strip() for x in _e.split(",")}

# ----------------------------------------------------------------------------- domain
VAR = ["int", "nat", "float", "bool"]
LIT = ["Lint", "Lneg", "Lfloat", "Lbool"]
KIND = {"int": "int", "nat": "nat", "float": "float", "bool": "bool",
        "Lint": "int", "Lneg": "int", "Lfloat": "float", "Lbool": "bool"}
RANK = {"nat": 0, "int": 1, "float": 2}

BINOPS = {  # name -> source template
    "add": "{} + {}", "sub": "{} - {}", "mul": "{} * {}", "truediv": "{} / {}",
    "floordiv": "{} // {}", "mod": "{} % {}", "pow": "{} ** {}", "lshift": "{} << {}",
    "rshift": "{} >> {}", "and": "{} & {}", "or": "{} | {}", "xor": "{} ^ {}",
    "eq": "{} == {}", "ne": "{} != {}", "lt": "{} < {}", "le": "{} <= {}", "gt": "{} > {}",
    "ge": "{} >= {}", "divmod": "divmod({}, {})", "powfn": "pow({}, {})",
}
UNOPS = {
    "neg": "-{}", "pos": "+{}", "invert": "~{}", "not": "not {}", "abs": "abs({})",
    "to_int": "int({})", "to_float": "float({})", "to_nat": "nat({})", "to_bool": "bool({})",
    "truth": "True if {} else False", "ident": "{}",
}
CMP = {"eq", "ne", "lt", "le", "gt", "ge"}
DIV = {"truediv", "floordiv", "mod", "divmod"}
SHIFT = {"lshift", "rshift"}
POW = {"pow", "powfn"}
BUILTIN2 = {"divmod", "powfn"}
PYOP = {"add": operator.add, "sub": operator.sub, "mul": operator.mul, "truediv": operator.truediv,
        "floordiv": operator.floordiv, "mod": operator.mod, "lshift": operator.lshift,
        "rshift": operator.rshift, "and": operator.and_, "or": operator.or_, "xor": operator.xor,
        "eq": operator.eq, "ne": operator.ne, "lt": operator.lt, "le": operator.le,
        "gt": operator.gt, "ge": operator.ge, "divmod": divmod}
REP_LIT = {"Lint": 2, "Lneg": -2, "Lfloat": 2.5, "Lbool": True}
ANNOT = {"int": "int", "nat": "nat", "float": "float", "bool": "bool",
         "(int, int)": "tuple[int, int]", "(nat, nat)": "tuple[nat, nat]",
         "(float, float)": "tuple[float, float]"}


def all_cells():
    cells = []
    forms = VAR + LIT
    for fa, fb in itertools.product(forms, forms):
        if fa in LIT and fb in LIT:
            continue
        for op in BINOPS:
            cells.append({"op": op, "forms": [fa, fb]})
    for f in VAR:
        for op in UNOPS:
            cells.append({"op": op, "forms": [f]})
    return cells


def cell_id(cell):
    return cell["op"] + ":" + ",".join(cell["forms"])


def combo_name(cell):
    f = cell["forms"]
    if len(f) == 2 and f[0] == f[1]:
        return f[0]
    return "_".join(f)


def lit_text(v):
    if isinstance(v, bool):
        return "True" if v else "False"
    if isinstance(v, float):
        neg = math.copysign(1.0, v) < 0
        return f"({v!r})" if neg else repr(v)
    return f"({v})" if v < 0 else str(v)


def expr_text(cell, ta, tb=None):
    if len(cell["forms"]) == 1:
        return UNOPS[cell["op"]].format(ta)
    return BINOPS[cell["op"]].format(ta, tb)


def join_kind(cell):
    """Type at which Guppy's documented coercion lattice (nat < int < float; an int literal is
    an int, except as a *call argument* where a non-negative literal adapts to nat) performs
    the operation.  bool never coerces."""
    f = cell["forms"]
    if len(f) == 1:
        return KIND[f[0]]
    ka, kb = KIND[f[0]], KIND[f[1]]
    if "bool" in (ka, kb):
        return "bool" if ka == kb else None
    if cell["op"] in BUILTIN2 and f[0] == "nat" and f[1] == "Lint":
        return "nat"
    return ka if RANK[ka] >= RANK[kb] else kb


def expected_rt(cell):
    """Result type demanded by the join rule (only used as a cross-check of the probed type)."""
    op, j = cell["op"], join_kind(cell)
    if j is None:
        return None
    if len(cell["forms"]) == 1:
        return {"not": "bool", "to_bool": "bool", "truth": "bool", "to_int": "int",
                "to_nat": "nat", "to_float": "float"}.get(op, j)
    if op in CMP:
        return "bool"
    if op == "truediv":
        return "float"
    if op == "divmod":
        return f"({j}, {j})"
    return j


def needs_ffloor(cell):
    """Cells whose lowering uses a float op the installed selene cannot emit (ffloor, fabs): they
    only run in single-call constant form."""
    if cell["op"] == "abs" and cell["forms"] == ["float"]:
        return True
    return cell["op"] in ("floordiv", "mod", "divmod") and join_kind(cell) == "float"


# ----------------------------------------------------------------------------- oracle
UNDEF = "undefined"
LIMIT = "oracle-limit"
BOUND = "emulator-bound"
OUT_OF_NAT = "negative-to-nat"
EXP_MAX = 10**6  # the emulator's ipow is a linear loop: larger integer exponents are not evaluated
WATCHDOG_S = 30  # per emulated program; a program normally runs for milliseconds


def wrap_s(v):
    v %= M64
    return v - M64 if v >= I63 else v


def coerce(v, frm, to):
    if frm == to:
        return v
    if to == "int":  # nat -> int : two's complement reinterpretation
        return wrap_s(v)
    if to == "float":
        return float(v)
    if to == "nat":  # non-negative literal adapting to nat
        return v
    raise AssertionError((frm, to))


def py_value(cell, pair):
    """CPython's result on the operands coerced to the join type, or UNDEF / LIMIT.
    Returns the raw Python value (not yet reduced)."""
    op, forms = cell["op"], cell["forms"]
    j = join_kind(cell)
    if len(forms) == 1:
        a = pair[0]
        k = KIND[forms[0]]
        if op == "neg":
            return -a
        if op in ("pos", "ident"):
            return +a if op == "pos" else a
        if op == "invert":
            return ~a
        if op in ("not",):
            return not a
        if op in ("to_bool", "truth"):
            return bool(a)
        if op == "abs":
            return abs(a)
        if op == "to_float":
            return float(a)
        if op in ("to_int", "to_nat"):
            if op == "to_nat" and a < 0:
                return OUT_OF_NAT  # includes floats in (-1, 0): see assumptions
            if k == "float":
                t = math.trunc(a)
                lo, hi = (-I63, I63 - 1) if op == "to_int" else (0, M64 - 1)
                if not lo <= t <= hi:
                    return UNDEF
                return t
            return int(a)
        raise AssertionError(op)
    a = coerce(pair[0], KIND[forms[0]], j)
    b = coerce(pair[1], KIND[forms[1]], j)
    intlike = j in ("int", "nat")
    if op in DIV and b == 0:
        return UNDEF
    if op == "truediv" and intlike and (abs(a) > F53 or abs(b) > F53):
        return LIMIT
    if op in SHIFT and not 0 <= b < 64:
        return UNDEF
    if op in POW:
        if intlike:
            if b < 0:
                return UNDEF
            if b > EXP_MAX:
                return BOUND
            return pow(a % M64, b, M64)
        try:
            r = a ** b
        except (OverflowError, ZeroDivisionError):
            return UNDEF
        if isinstance(r, complex):
            return UNDEF
        return r
    try:
        return PYOP[op](a, b)
    except (OverflowError, ZeroDivisionError, ValueError):
        return UNDEF


def reduce_to(v, rt):
    """Reduce a raw Python value into result type `rt`; raises TypeError on category clash."""
    if rt.startswith("("):
        inner = rt[1:-1].split(", ")
        return [reduce_to(x, t) for x, t in zip(v, inner)]
    if rt == "bool":
        if not isinstance(v, bool):
            raise TypeError(f"python gives {type(v).__name__} where guppy gives bool")
        return int(v)
    if rt == "float":
        if not isinstance(v, float):
            raise TypeError(f"python gives {type(v).__name__} where guppy gives float")
        return v
    if isinstance(v, float):
        raise TypeError(f"python gives float where guppy gives {rt}")
    v = int(v)
    return wrap_s(v) if rt == "int" else v % M64


def fbits(x):
    return struct.unpack("<q", struct.pack("<d", x))[0]


def ford(x):
    b = fbits(x)
    return b if b >= 0 else -(b & (I63 - 1))


def same(obs, exp, rt, ulps=0):
    if rt.startswith("("):
        inner = rt[1:-1].split(", ")
        return (isinstance(obs, list) and len(obs) == len(exp)
                and all(same(o, e, t, ulps) for o, e, t in zip(obs, exp, inner)))
    if rt == "float":
        if not isinstance(obs, float):
            return False
        if math.isnan(exp) or math.isnan(obs):
            return math.isnan(exp) and math.isnan(obs)
        if ulps:
            return abs(ford(obs) - ford(exp)) <= ulps
        return fbits(obs) == fbits(exp)
    if isinstance(obs, float) or not isinstance(obs, int):
        return False
    if rt == "bool":
        return obs == exp
    if rt == "int":
        return obs == exp
    return (obs - exp) % M64 == 0  # nat: reporting channel may be signed (C17)


def float_model(op, a, b):
    """The floor(a/b)-based formulas (what a correct IEEE evaluation of the *documented
    library source* would give) - used only to delimit the known finding classes."""
    try:
        d = a / b
        q = math.copysign(float(math.floor(d)), d) if math.isfinite(d) else d  # ffloor keeps -0.0
        m = a - q * b
    except (OverflowError, ZeroDivisionError, ValueError):
        return None
    return q, m


def known_class(cell, pair):
    """Bucket of the confirmed finding class this operand pair belongs to, else None.
    Defined on operand values only."""
    op = cell["op"]
    if len(cell["forms"]) != 2:
        return None
    j = join_kind(cell)
    a = coerce(pair[0], KIND[cell["forms"][0]], j)
    b = coerce(pair[1], KIND[cell["forms"][1]], j)
    if j == "nat" and op == "divmod":
        return "nat.divmod.invalid_hugr"  # whole cell: the compiled program does not validate
    if j == "int":
        if op in ("floordiv", "mod", "divmod") and b < 0 and a != 0:
            return f"int.{op}.neg_divisor"
        if op == "rshift" and a < 0 and 1 <= b < 64:
            return "int.rshift.neg_lhs"
    if j == "float" and op in ("floordiv", "mod", "divmod") and b != 0:
        fm = float_model(op, a, b)
        if fm is None:
            return None
        q, m = fm
        pq, pm = divmod(a, b)
        qsame = same(q, pq, "float")
        msame = same(m, pm, "float")
        if op == "floordiv":
            return None if qsame else "float.floordiv.inexact_quotient"
        if op == "mod":
            if msame:
                return None
            if not qsame:
                return "float.mod.inexact_quotient"
            return "float.mod.zero_sign" if m == pm else "float.mod.rounded_product"
        if qsame and msame:
            return None
        if not qsame:
            return "float.divmod.inexact_quotient"
        return "float.divmod.zero_sign" if m == pm else "float.divmod.rounded_product"
    return None


INT_B = [0, 1, -1, 2, -2, 3, -3, 7, -7, 10, 63, 64, -64, 2**31 - 1, 2**31, 2**31 + 1,
         -(2**31 - 1), -(2**31), -(2**31 + 1), 2**32, F53 - 1, F53, F53 + 1, -(F53 - 1), -(F53 + 1),
         2**62, I63 - 1, I63 - 2, -I63, -I63 + 1]
NAT_B = [0, 1, 2, 3, 7, 10, 63, 64, 2**31 - 1, 2**31 + 1, 2**32, F53 - 1, F53 + 1, I63 - 1, I63,
         I63 + 1, M64 - 2, M64 - 1]
FLOAT_B = [0.0, -0.0, 1.0, -1.0, 2.0, -2.0, 0.5, -0.5, 0.1, -0.1, 0.2, 0.3, 0.7, 1 / 3, 1.5, 2.5,
           -2.5, 3.5, 7.0, -7.0, 7.5, -7.5, 10.0, 1e-7, 5e-324, -5e-324, 2.225073858507201e-308,
           2.2250738585072014e-308, 1e-310, 1e308, -1e308, 1.7976931348623157e308, 2.0**31,
           2.0**53, 2.0**53 + 2, 2.0**63, 2.0**64, 9.223372036854775e18, -(2.0**63),
           1.844674407370955e19, 1e16, 123456.789]
BOUNDARY = {"int": set(INT_B), "nat": set(NAT_B), "bool": set(), "float": None}
_FB = {fbits(x) for x in FLOAT_B}
CORE = {"int": [0, 1, -1, 7, -7, 2, -2, 63, I63 - 1, -I63],
        "nat": [0, 1, 2, 7, 63, I63 - 1, I63, M64 - 1],
        "float": [0.0, -0.0, 1.0, -1.0, 0.1, 2.5, -7.5, 5e-324, 1e308],
        "bool": [False, True]}
LITPOOL = {"Lint": [0, 1, 2, 3, 7, 10, 31, 63, 64, 2**31, F53 + 1, I63 - 1],
           "Lneg": [-1, -2, -3, -7, -64, -(2**31) - 1, -F53 - 1, -I63 + 1],
           "Lfloat": [0.0, -0.0, 0.1, 0.5, 1.0, -1.0, 2.0, 2.5, -2.5, 3.0, 1e308, 5e-324, 1e-7],
           "Lbool": [True, False]}
GRID = {"int": [0, 1, -1, 2, -2, 3, -3, 7, -7, 8, -8],
        "nat": [0, 1, 2, 3, 7, 8, I63, M64 - 1],
        "float": [0.0, 1.0, -1.0, 2.0, -2.0, 0.5, -0.5, 0.1, -0.1, 1.5, 3.0, 0.3, 7.0, -7.0],
        "bool": [False, True]}


def is_boundary(v, kind):
    if kind == "bool":
        return False
    if kind == "float":
        return fbits(float(v)) in _FB
    return v in BOUNDARY[kind]


def sign_class(v, kind):
    if kind == "bool":
        return "T" if v else "F"
    if kind == "float":
        if v == 0:
            return "nzero" if math.copysign(1.0, v) < 0 else "zero"
        return "neg" if v < 0 else "pos"
    if kind == "nat":
        return "zero" if v == 0 else ("big" if v >= I63 else "pos")
    if v == -I63:
        return "min"
    return "zero" if v == 0 else ("neg" if v < 0 else "pos")


def pair_class(cell, pair):
    return "_".join(sign_class(v, KIND[f]) for v, f in zip(pair, cell["forms"]))


def nontrivial(cell, pair):
    for v, f in zip(pair, cell["forms"]):
        k = KIND[f]
        if is_boundary(v, k):
            return True
        if k == "bool":
            if not v:
                return True
        elif not v > 0:
            return True
    return False


def in_type(v, kind):
    if kind == "int":
        return isinstance(v, int) and not isinstance(v, bool) and -I63 <= v < I63
    if kind == "nat":
        return isinstance(v, int) and not isinstance(v, bool) and 0 <= v < M64
    if kind == "float":
        return isinstance(v, float) and math.isfinite(v)
    return isinstance(v, bool)


def in_domain_literal(v, form):
    """Literal forms are written into the source: keep them inside what the form denotes."""
    if form == "Lint":
        return 0 <= v < I63
    if form == "Lneg":
        return -I63 < v < 0
    return True


# ----------------------------------------------------------------------------- programs
# Float constants reach selene through a JSON envelope whose reader is not round-trip exact
# (17-digit literals arrive 1 ulp off - toolchain, not guppylang).  Runtime float operands are
# therefore transported as nat bit patterns + bytecast, and every float that has to be written
# as a literal (literal forms, constant form) is reported back bit-exactly by the program and
# the oracle is evaluated on the operand the program really saw.
IMPORTS = "from guppylang.std.num import bytecast_float_to_nat, bytecast_nat_to_float\n"


def ubits(x):
    return struct.unpack("<Q", struct.pack("<d", x))[0]


def from_ubits(n):
    return struct.unpack("<d", struct.pack("<Q", n % M64))[0]


def _arr(name, kind, vals):
    """(module-level lines, main-body lines, element expression) for runtime array `name`."""
    n = len(vals)
    if kind == "nat":
        return [], [f"{name}: array[nat, {n}] = array({', '.join(str(v) for v in vals)})"], f"{name}[i]"
    if kind == "float":
        return ([], [f"{name}: array[nat, {n}] = array({', '.join(str(ubits(v)) for v in vals)})"],
                f"bytecast_nat_to_float({name}[i])")
    up = name.upper()
    return [f"{up} = [{', '.join(repr(v) for v in vals)}]"], [f"{name} = comptime({up})"], f"{name}[i]"


def _const_arg(v, kind):
    if kind == "bool":
        return "True" if v else "False"
    if kind == "float":
        return f"comptime({v!r})" if math.copysign(1.0, v) < 0 else repr(v)
    return f"comptime({v})" if v < 0 else str(v)


def build_program(units, const_form=False):
    """Source of one program evaluating `units` = [(cell, rt, pairs)] -> (src, plan).  `plan`
    lists what the result stream must contain, in order: ("unit", u) = entry "u" with value u;
    ("lit", u, pos, [pair idx...]) = one entry "l" with the bits of the float literal of that
    group; ("pair", u, idx, [pos...]) = entries "o<pos>" with the bits of constant-form float
    operands, then the result ("r" or "q","r")."""
    from vlib import runner

    top, body, plan = [], [], []
    for u, (cell, rt, pairs) in enumerate(units):
        forms = cell["forms"]
        ann = ANNOT[rt]
        tup = rt.startswith("(")
        body.append(f'result("u", {u})')
        plan.append(("unit", u))
        litpos = [i for i, f in enumerate(forms) if f in LIT]
        varpos = [i for i, f in enumerate(forms) if f in VAR]
        groups = {}
        for idx, p in enumerate(pairs):
            key = repr(p[litpos[0]]) if litpos else ""
            groups.setdefault(key, []).append(idx)
        for g, (_, idxs) in enumerate(groups.items()):
            fn = f"op{u}_{g}"
            texts, params = [None] * len(forms), []
            for i in varpos:
                texts[i] = "ab"[i]
                params.append(f"{'ab'[i]}: {forms[i]}")
            for i in litpos:
                texts[i] = lit_text(pairs[idxs[0]][i])
                if forms[i] == "Lfloat":
                    body.append(f'result("l", bytecast_float_to_nat({texts[i]}))')
                    plan.append(("lit", u, i, list(idxs)))
            top.append(f"@guppy\ndef {fn}({', '.join(params)}) -> {ann}:\n    return {expr_text(cell, *texts)}\n")

            def emit(call, ind):
                if tup:
                    body.extend([f"{ind}q, r = {call}", f'{ind}result("q", q)', f'{ind}result("r", r)'])
                else:
                    body.append(f'{ind}result("r", {call})')

            if const_form:
                for idx in idxs:
                    args, fpos = [], []
                    for i in varpos:
                        t = _const_arg(pairs[idx][i], forms[i])
                        args.append(t)
                        if forms[i] == "float":
                            body.append(f'result("o{i}", bytecast_float_to_nat({t}))')
                            fpos.append(i)
                    emit(f"{fn}({', '.join(args)})", "")
                    plan.append(("pair", u, idx, fpos))
                continue
            elems = []
            for i in varpos:
                t, b, e = _arr(f"{'xy'[i]}s{u}_{g}", forms[i], [pairs[idx][i] for idx in idxs])
                top.extend(t)
                body.extend(b)
                elems.append(e)
            body.append(f"for i in range({len(idxs)}):")
            emit(f"{fn}({', '.join(elems)})", "    ")
            plan.extend(("pair", u, idx, []) for idx in idxs)
    src = (runner.PRELUDE + IMPORTS + "\n" + "\n".join(top) + "\n@guppy\ndef main() -> None:\n"
           + "\n".join("    " + ln for ln in body) + "\n")
    return src, plan


def build_source(cell, rt, pairs, const_form=False):
    return build_program([(cell, rt, pairs)], const_form)


_probe_cache = {}


def probe_cell(cell):
    """Ask /repo's checker whether the cell is accepted -> result type string or
    (None, error class).  The type is read off the `-> None` mismatch diagnostic."""
    from vlib import runner

    cid = cell_id(cell)
    if cid in _probe_cache:
        return _probe_cache[cid]
    forms = cell["forms"]
    texts, params = [], []
    for i, f in enumerate(forms):
        if f in LIT:
            texts.append(lit_text(REP_LIT[f]))
        else:
            texts.append("ab"[i])
            params.append(f"{'ab'[i]}: {f}")
    src = runner.PRELUDE + f"\n@guppy\ndef op({', '.join(params)}) -> None:\n    return {expr_text(cell, *texts)}\n"
    lm = runner.load_module(src)
    try:
        out = runner.check_def(lm.mod.op)
    finally:
        lm.dispose()
    res = (None, out.kind)
    if out.kind == "rejected":
        err = out.exc.error
        name = type(err).__name__
        if name == "TypeMismatchError" and str(getattr(err, "expected", "")) == "None":
            t = str(err.actual)
            res = (t, None) if t in ANNOT else (None, f"result type {t}")
        else:
            res = (None, name + (":argument" if name == "TypeMismatchError" else ""))
    elif out.kind == "crash":
        res = (None, "crash:" + runner.crash_bucket(out.exc))
    _probe_cache[cid] = res
    return res


# ----------------------------------------------------------------------------- evaluation
class Verdict:
    """status: ok (agrees) | bad (bucket, detail) | skip (why)"""
    __slots__ = ("pair", "status", "bucket", "detail", "exp", "obs")

    def __init__(self, pair, status, bucket=None, detail=None, exp=None, obs=None):
        self.pair, self.status, self.bucket, self.detail, self.exp, self.obs = pair, status, bucket, detail, exp, obs


def describe(cell, pair):
    forms = cell["forms"]
    texts = [lit_text(v) if f in LIT else f"{f}({v!r})" for v, f in zip(pair, forms)]
    return expr_text(cell, *texts)


def oracle(cell, rt, pair, use_exclude=True):
    """-> ("ok", expected) | ("skip", why)   for the operands the program really saw"""
    raw = py_value(cell, pair)
    if raw is UNDEF:
        return "skip", "dropped:undefined_in_python"
    if raw is LIMIT:
        return "skip", "exclude:oracle-limit: int/int true division with an operand above 2^53"
    if raw is BOUND:
        return "skip", "dropped:int_exponent_above_emulator_bound"
    if raw is OUT_OF_NAT:
        return "skip", "dropped:negative_source_of_nat()_is_out_of_range(panics)"
    kc = known_class(cell, pair)
    if use_exclude and kc in EXCLUDE:
        return "skip", "exclude:" + kc
    try:
        return "ok", reduce_to(raw, rt)
    except TypeError as e:
        return "skip", f"harness:{cell_id(cell)} {pair}: {e}"


def pow_tolerance(cell, pair):
    """float ** float: 2 ulp against CPython's libm pow.  One documented relaxation: a *literal*
    base that is an exact power of two 2^n (|n| >= 2) is rewritten by the LLVM of the installed
    selene into exp2(n*y); the rounding of n*y is amplified to about ln2*|n*y| ulp (toolchain,
    the runtime-operand form of the same cell is held to 2 ulp)."""
    if cell["forms"][0] in LIT and pair[0] != 0:
        m, e = math.frexp(abs(float(pair[0])))
        n = e - 1
        if m == 0.5 and abs(n) >= 2:
            return 2 + math.ceil(min(1.4 * abs(n * float(pair[1])), 2.0**40))
    return 2


def judge(cell, rt, pair, exp, obs):
    """None if `obs` is Python's value, else bucket."""
    ulps = pow_tolerance(cell, pair) if (cell["op"] in POW and rt == "float") else 0
    if same(obs, exp, rt, ulps):
        return None
    return known_class(cell, pair) or f"{combo_name(cell)}.{cell['op']}.{pair_class(cell, pair)}"


_watchdog = [False]


def install_watchdog():
    """Give every emulator run a timeout (harness side; the runner sets none)."""
    if _watchdog[0]:
        return
    import datetime

    from guppylang.emulator.instance import EmulatorInstance

    orig = EmulatorInstance.run

    def run(self):
        if self.timeout is None:
            self = self.with_timeout(datetime.timedelta(seconds=WATCHDOG_S))
        return orig(self)

    EmulatorInstance.run = run
    _watchdog[0] = True


def run_units(units, const_form=False, use_exclude=True, max_reruns=3):
    """Run `units` = [(cell, rt, pairs)] as one program (re-running behind a panic; splitting
    into one program per unit if the merged program cannot be built/run).
    -> [(verdicts, problems)] per unit; problems = [(kind, message, src)]."""
    from vlib import runner

    install_watchdog()
    res = [([], []) for _ in units]
    todo = [list(range(len(pairs))) for _, _, pairs in units]  # indices still to evaluate
    reruns = 0
    while any(todo):
        live = [u for u in range(len(units)) if todo[u]]
        sub = [(units[u][0], units[u][1], [units[u][2][i] for i in todo[u]]) for u in live]
        src, plan = build_program(sub, const_form)
        out, lm = runner.run_source(src, n_qubits=1)
        if lm is not None:
            lm.dispose()
        trap = False
        if (out.kind == "unsupported" and out.title == "selene-run" and "Timed out" not in out.message
                and getattr(out.exc, "failing_shot", None) is not None):
            # the emulated process died (native trap): judge like a panic behind the partial stream
            out.stream = [(t, runner.norm_value(v)) for t, v in out.exc.failing_shot.entries]
            out.kind, trap = "panic", True
        if out.kind not in ("ok", "panic"):
            if len(live) > 1:  # isolate the unit that cannot be built
                for u in live:
                    r = run_units([(units[u][0], units[u][1], [units[u][2][i] for i in todo[u]])], const_form,
                                  use_exclude, max_reruns)[0]
                    res[u][0].extend(r[0])
                    res[u][1].extend(r[1])
            elif out.kind == "unsupported" and "Timed out" in out.message:
                # the program does not terminate within the watchdog: bisect to one pair
                u = live[0]
                cell, rt, ps = sub[0]
                if len(ps) > 1:
                    for half in (ps[:len(ps) // 2], ps[len(ps) // 2:]):
                        r = run_units([(cell, rt, half)], const_form, use_exclude, max_reruns)[0]
                        res[u][0].extend(r[0])
                        res[u][1].extend(r[1])
                else:
                    p = tuple(ps[0])
                    st, exp = oracle(cell, rt, p, use_exclude)
                    if st != "skip":
                        res[u][0].append(Verdict(
                            p, "bad", f"{combo_name(cell)}.{cell['op']}.timeout.{pair_class(cell, p)}",
                            f"{describe(cell, p)}: guppy program does not finish within {WATCHDOG_S}s, "
                            f"python {exp!r} (as {rt})", exp, "timeout"))
            else:
                res[live[0]][1].append((out.kind, (out.title + " " + out.message)[:1500], src))
            break
        stream = list(out.stream)
        pos = 0
        actual = {(k, i): list(p) for k, (_, _, ps) in enumerate(sub) for i, p in enumerate(ps)}
        culprit, bad_stream, bad_unit = None, None, 0
        for item in plan:
            k = item[1]
            cell, rt, _ = sub[k]
            bad_unit = k
            if item[0] in ("unit", "lit"):
                want = "u" if item[0] == "unit" else "l"
                if pos >= len(stream) or stream[pos][0] != want:
                    bad_stream = f"expected tag {want}, got {stream[pos:pos + 1]}"
                    break
                if item[0] == "lit":
                    for idx in item[3]:
                        actual[(k, idx)][item[2]] = from_ubits(stream[pos][1])
                pos += 1
                continue
            _, _, idx, fpos = item
            tags = ["q", "r"] if rt.startswith("(") else ["r"]
            need = [f"o{i}" for i in fpos] + tags
            got = stream[pos:pos + len(need)]
            if [t for t, _ in got] != need[:len(got)]:
                bad_stream = f"expected tags {need}, got {got}"
                break
            for (t, v), i in zip(got, fpos):
                actual[(k, idx)][i] = from_ubits(v)
            p = tuple(actual[(k, idx)])
            if len(got) < len(need):
                if out.kind != "panic":
                    bad_stream = f"stream ends inside pair {p}"
                else:
                    culprit = (k, idx)
                break
            pos += len(need)
            vals = [v for _, v in got[len(fpos):]]
            obs = vals[0] if len(tags) == 1 else vals
            verdicts = res[live[k]][0]
            st, exp = oracle(cell, rt, p, use_exclude)
            if st == "skip":
                verdicts.append(Verdict(p, "skip", detail=exp))
                continue
            b = judge(cell, rt, p, exp, obs)
            if b is None:
                verdicts.append(Verdict(p, "ok", exp=exp, obs=obs))
            else:
                verdicts.append(Verdict(p, "bad", b, f"{describe(cell, p)}: guppy {obs!r}, python {exp!r} (as {rt})",
                                        exp, obs))
        if bad_stream:
            res[live[bad_unit]][1].append(("stream", bad_stream + f" [{out.kind} {out.message[:200]}]", src))
            break
        if out.kind == "ok":
            break
        if culprit is None:
            res[live[bad_unit]][1].append(("stream", f"panic outside an operand pair: {out.message}", src))
            break
        k, idx = culprit
        cell, rt, _ = sub[k]
        p = tuple(actual[culprit])
        st, exp = oracle(cell, rt, p, use_exclude)
        if st == "skip":
            res[live[k]][0].append(Verdict(p, "skip", detail=exp))
        else:
            what = "trap" if trap else "panic"
            res[live[k]][0].append(Verdict(
                p, "bad", known_class(cell, p) or f"{combo_name(cell)}.{cell['op']}.{what}.{pair_class(cell, p)}",
                f"{describe(cell, p)}: guppy {'process dies' if trap else 'panics'} ({out.message[:200]}), "
                f"python {exp!r} (as {rt})", exp, f"{what}: " + out.message[:200]))
        # what is left: the rest of the culprit's unit and every later unit
        order = [it[2] for it in plan if it[0] == "pair" and it[1] == k]
        for kk in range(k):
            todo[live[kk]] = []
        todo[live[k]] = [todo[live[k]][i] for i in order[order.index(idx) + 1:]]
        reruns += 1
        if reruns > max_reruns:
            for u in live:
                if todo[u]:
                    res[u][1].append(("skipped", f"{len(todo[u])} pairs not evaluated after {reruns} panics", src))
            break
    return res


def run_pairs(cell, rt, pairs, const_form=False, use_exclude=True, max_reruns=3):
    return run_units([(cell, rt, list(pairs))], const_form, use_exclude, max_reruns)[0]


def prepare(ctx, cell, rt, pairs, count_excl=True):
    """Filter the intended pairs to those the oracle will judge (saves builds)."""
    seen, outp = set(), []
    for p in pairs:
        p = tuple(float(v) if KIND[f] == "float" else v for v, f in zip(p, cell["forms"]))
        key = tuple(fbits(v) if isinstance(v, float) else (type(v).__name__, v) for v in p)
        if key in seen:
            continue
        seen.add(key)
        if not all(in_domain_literal(v, f) for v, f in zip(p, cell["forms"]) if f in LIT):
            continue
        if not all(in_type(v, KIND[f]) for v, f in zip(p, cell["forms"])):
            if ctx is not None:
                ctx.harness_error(f"generator produced {p} for {cell_id(cell)}")
            continue
        st, x = oracle(cell, rt, p)
        if st == "skip":
            note_skip(ctx, x, count_excl)
            continue
        outp.append(p)
    return outp


def note_skip(ctx, why, count_excl=True):
    if ctx is None:
        return
    if why.startswith("exclude:"):
        if count_excl:
            ctx.exclude(why[len("exclude:"):])
    elif why.startswith("harness:"):
        ctx.harness_error(why)
    else:
        ctx.label(why)


def nonexec_bucket(cell, kind):
    return f"{join_kind(cell)}.{cell['op']}." + ("invalid_hugr" if kind == "invalid" else "compile_crash")


def case_of(cell, rt, pair, exp, obs):
    src, _ = build_source(cell, rt, [pair], needs_ffloor(cell))
    return {"cell": {"op": cell["op"], "forms": cell["forms"]}, "rt": rt, "pair": list(pair),
            "expr": describe(cell, pair), "expected": repr(exp), "observed": repr(obs), "source": src}


def replay(case):
    """Re-run one recorded operand pair (ignores EXCLUDE: probes of excluded classes run)."""
    cell = {"op": case["cell"]["op"], "forms": list(case["cell"]["forms"])}
    if case.get("pair") is None:  # non-executable program recorded with its source
        from vlib import runner

        out, lm = runner.run_source(case["source"], n_qubits=1)
        if lm is not None:
            lm.dispose()
        return (nonexec_bucket(cell, out.kind), out.brief()) if out.kind in ("crash", "invalid") else None
    rt, why = probe_cell(cell)
    if rt is None:
        return ("cell_rejected", f"{cell_id(cell)} is no longer accepted by the checker: {why}")
    pair = tuple(case["pair"])
    for i, f in enumerate(cell["forms"]):
        if KIND[f] == "float":
            pair = pair[:i] + (float(pair[i]),) + pair[i + 1:]
        elif KIND[f] == "bool":
            pair = pair[:i] + (bool(pair[i]),) + pair[i + 1:]
    if rt != expected_rt(cell):
        return (f"{combo_name(cell)}.{cell['op']}.result_type", f"{cell_id(cell)}: guppy types the result as {rt}, "
                f"the coercion lattice gives {expected_rt(cell)}")
    if oracle(cell, rt, pair, use_exclude=False)[0] == "skip":
        return None  # outside the judged domain (undefined in Python / oracle limit / emulator bound)
    verdicts, problems = run_pairs(cell, rt, [pair], needs_ffloor(cell), use_exclude=False)
    for v in verdicts:
        if v.status == "bad":
            return (v.bucket, v.detail)
    for kind, msg, _ in problems:
        if kind in ("crash", "invalid"):
            return (nonexec_bucket(cell, kind), msg)
        if kind == "rejected":
            return ("cell_rejected", msg)
    return None


def probe_case(op, forms, pair):
    return {"cell": {"op": op, "forms": forms}, "pair": pair}


# One fixed input per confirmed class (for known_findings.json `probe` and for `--replay`).
PROBES = {
    "int.floordiv.neg_divisor": probe_case("floordiv", ["int", "int"], [-7, -2]),
    "int.mod.neg_divisor": probe_case("mod", ["int", "int"], [-7, -2]),
    "int.divmod.neg_divisor": probe_case("divmod", ["int", "int"], [-7, -2]),
    "int.rshift.neg_lhs": probe_case("rshift", ["int", "int"], [-8, 1]),
    "float.floordiv.inexact_quotient": probe_case("floordiv", ["float", "float"], [1.0, 0.1]),
    "float.mod.inexact_quotient": probe_case("mod", ["float", "float"], [1.0, 0.1]),
    "float.mod.rounded_product": probe_case("mod", ["float", "float"], [-1.0, 0.1]),
    "float.mod.zero_sign": probe_case("mod", ["float", "float"], [0.0, -2.0]),
    "float.divmod.inexact_quotient": probe_case("divmod", ["float", "float"], [1.0, 0.1]),
    "float.divmod.rounded_product": probe_case("divmod", ["float", "float"], [-1.0, 0.1]),
    "float.divmod.zero_sign": probe_case("divmod", ["float", "float"], [0.0, -2.0]),
    "nat.divmod.invalid_hugr": probe_case("divmod", ["nat", "nat"], [7, 2]),
}


# ----------------------------------------------------------------------------- worker
def make_strategies():
    from hypothesis import strategies as st

    def mag_int(lo_bits=0, hi_bits=63, signed=True):
        s = st.integers(lo_bits, hi_bits).flatmap(lambda k: st.integers(0, (1 << k) - 1 if k else 0))
        if signed:
            return st.tuples(s, st.booleans()).map(lambda t: -t[0] - 1 if t[1] else t[0])
        return s

    ints = st.one_of(st.sampled_from(INT_B), mag_int(), st.integers(-I63, I63 - 1), st.integers(-20, 20))
    nats = st.one_of(st.sampled_from(NAT_B), mag_int(0, 64, signed=False), st.integers(0, M64 - 1),
                     st.integers(0, 20))
    flts = st.one_of(st.sampled_from(FLOAT_B), st.floats(allow_nan=False, allow_infinity=False),
                     st.floats(-1e6, 1e6), st.integers(-1000, 1000).map(float),
                     st.integers(-10**6, 10**6).map(lambda n: n / 10),
                     st.floats(-2.3e-308, 2.3e-308))
    counts = st.one_of(st.sampled_from([0, 1, 2, 31, 32, 33, 62, 63]), st.integers(0, 63))
    exps_i = st.one_of(st.sampled_from([0, 1, 2, 3, 4, 5, 10, 31, 62, 63, 64, 65, 127, 128, 1000, 65537, EXP_MAX]),
                       st.integers(0, 200), st.integers(0, EXP_MAX))
    exps_small = st.one_of(st.integers(-8, 12), st.integers(-300, 300))
    exps_f = st.one_of(st.sampled_from([0.0, 0.5, 1.0, 2.0, -1.0, -2.0, 3.0, 1 / 3, 0.1, 10.0, -0.5, 100.0, 1e-3]),
                       st.floats(-20, 20), flts)
    base_f = st.one_of(st.sampled_from([0.0, 1.0, 2.0, 0.5, 10.0, 1.5, -2.0, -1.0, 0.1, 1e-5, 1e5, 3.0]),
                       st.floats(0, 100), flts)
    conv_f = st.one_of(st.sampled_from(FLOAT_B), st.floats(-9.3e18, 9.3e18), st.floats(0, 1.85e19),
                       st.floats(-1e6, 1e6), st.integers(-1000, 1000).map(float), st.floats(-1, 1))
    general = {"int": ints, "nat": nats, "float": flts, "bool": st.booleans()}

    def operand(cell, i):
        form = cell["forms"][i]
        k = KIND[form]
        op = cell["op"]
        j = join_kind(cell)
        s = general[k]
        if len(cell["forms"]) == 1:
            if op in ("to_int", "to_nat") and k == "float":
                s = conv_f
        elif i == 1 and k in ("int", "nat"):
            if op in SHIFT:
                s = counts
            elif op in POW:
                s = exps_i if j in ("int", "nat") else (exps_small if k == "int" else st.integers(0, 300))
        elif i == 1 and k == "float" and op in POW:
            s = exps_f
        elif i == 0 and op in POW and j == "float":
            s = base_f if k == "float" else st.one_of(st.integers(-20 if k == "int" else 0, 20), s)
        if form in LIT:
            return None, s
        return s, None

    return operand


def core_pairs(cell):
    forms = cell["forms"]
    cols = []
    for i, f in enumerate(forms):
        vals = LITPOOL[f] if f in LIT else CORE[f]
        if len(forms) == 2 and i == 1 and KIND[f] in ("int", "nat") and cell["op"] in SHIFT:
            vals = [v for v in vals if 0 <= v < 64] or vals
        if len(forms) == 2 and i == 1 and KIND[f] in ("int", "nat") and cell["op"] in POW:
            vals = [v for v in vals if abs(v) <= 64] + [5, 64, 1000]
        cols.append(vals)
    return list(itertools.product(*cols))


def assign_cells(cells, nshards, ffloor_cost):
    """Deterministic greedy balancing of accepted cells over shards by estimated cost."""
    load = [0.0] * nshards
    owner = {}
    cost = lambda c: ffloor_cost if needs_ffloor(c) else (1.6 if any(f in LIT for f in c["forms"]) else 1.0)  # noqa: E731
    for c in sorted(cells, key=lambda c: (-cost(c), cell_id(c))):
        s = min(range(nshards), key=lambda i: (load[i], i))
        owner[cell_id(c)] = s
        load[s] += cost(c)
    return owner


def worker(ctx):
    operand = make_strategies()
    from hypothesis import strategies as st

    P = ctx.params
    cells = all_cells()
    if os.environ.get("C04_CELLS"):  # development aid: regex over cell ids
        import re

        cells = [c for c in cells if re.search(os.environ["C04_CELLS"], cell_id(c))]
    accepted, rejected = [], {}
    for c in cells:
        rt, why = probe_cell(c)
        if rt is None:
            rejected[cell_id(c)] = why
        else:
            accepted.append((c, rt))
    if ctx.shard == 0:
        ctx.notes["cells_enumerated"] = len(cells)
        ctx.notes["cells_accepted"] = len(accepted)
        ctx.notes["accepted_cells"] = {cell_id(c): rt for c, rt in accepted}
        hist = {}
        for w in rejected.values():
            hist[w] = hist.get(w, 0) + 1
        ctx.notes["rejected_cells_by_error"] = hist
        ctx.notes["EXCLUDE"] = sorted(EXCLUDE)
        ctx.label("cell:accepted", len(accepted))
        ctx.label("cell:rejected", len(rejected))
    owner = assign_cells([c for c, _ in accepted], ctx.nshards, P["ffloor_pairs"] * 1.5)
    mine = [(c, rt) for c, rt in accepted if owner[cell_id(c)] == ctx.shard]
    notes_unsup = {}
    raw_python_differs = {}
    new_buckets = {}  # bucket -> (cell, rt)

    nprog = [0]

    def record(cell, rt, verdicts, problems, label_cases=True, only_bucket=None):
        j = join_kind(cell)
        for v in verdicts:
            if v.status == "skip":
                if label_cases:
                    note_skip(ctx, v.detail)
                continue
            if only_bucket is not None and v.bucket != only_bucket:
                continue
            if label_cases:
                labs = [f"join:{j}", f"op:{cell['op']}",
                        "form:" + ("literal" if any(f in LIT for f in cell["forms"]) else
                                   ("same_type" if len(set(cell["forms"])) == 1 else "coerced")),
                        "value:" + ("boundary" if any(is_boundary(x, KIND[f]) for x, f in zip(v.pair, cell["forms"]))
                                    else "random")]
                if len(cell["forms"]) == 2 and cell["forms"][0] in LIT:
                    labs.append("form:literal_left(reflected)")
                ctx.case((cell_id(cell), [repr(x) for x in v.pair]), nontrivial(cell, v.pair), labels=labs,
                         sample={"expr": describe(cell, v.pair), "result_type": rt, "python": repr(v.exp),
                                 "guppy": repr(v.obs)})
            if v.status == "bad":
                if cell["op"] == "ident":
                    ctx.harness_error("operand transport is not exact: " + v.detail)
                    continue
                if v.bucket not in ctx.violations:
                    new_buckets[v.bucket] = (cell, rt)
                ctx.violation(v.bucket, case_of(cell, rt, v.pair, v.exp, v.obs), v.detail)
            elif known_class(cell, v.pair):
                ctx.label("in_known_class_but_agrees:" + known_class(cell, v.pair))
        for kind, msg, src in problems:
            if kind == "unsupported":
                why = ("ffloor/fabs: constant form not folded by selene" if needs_ffloor(cell)
                       else "selene could not build/run: " + cell_id(cell))
                ctx.unsupported_case(why)
                notes_unsup.setdefault(cell_id(cell), msg[:300])
            elif kind in ("crash", "invalid"):
                ctx.violation(nonexec_bucket(cell, kind), {"cell": cell, "rt": rt, "source": src, "pair": None}, msg)
            elif kind == "skipped":
                ctx.label("pairs_skipped_after_repeated_panics")
            else:
                ctx.harness_error(f"{cell_id(cell)}: {kind}: {msg[:600]}\n{src[:1500]}")

    short_f = st.one_of(st.integers(-10**5, 10**5).map(lambda n: n / 10), st.integers(-10**4, 10**4).map(lambda n: n / 8))
    units, singles = [], []  # runtime units (cell, rt, pairs<=batch) / constant-form single pairs
    for ci, (cell, rt) in enumerate(mine):
        cid = cell_id(cell)
        forms = cell["forms"]
        if rt != expected_rt(cell):
            b = f"{combo_name(cell)}.{cell['op']}.result_type"
            ctx.violation(b, {"cell": cell, "rt": rt, "pair": [REP_LIT.get(f, 1) for f in forms]},
                          f"{cid}: guppy types the result as {rt}, the coercion lattice gives {expected_rt(cell)}")
            continue
        ff = needs_ffloor(cell)
        # literal pool: fixed + a few Hypothesis-drawn extras
        strat_parts = []
        for i, f in enumerate(forms):
            s, lit_s = operand(cell, i)
            if f in LIT:
                extra = []
                if f != "Lbool" and P["lit_extra"]:
                    harness.hyp_search(ctx, short_f if f == "Lfloat" else lit_s, extra.append,
                                       max_examples=P["lit_extra"] + 1, chunk=P["lit_extra"] + 1,
                                       extra_seed=("lit", cid))
                pool = [v for v in LITPOOL[f] + extra if in_domain_literal(v, f)]
                if f == "Lfloat":
                    pool = [float(v) for v in pool]
                strat_parts.append(st.sampled_from(pool))
            else:
                strat_parts.append(s)
        drawn = []
        n_draw = P["ffloor_draw"] if ff else P["pairs"]
        harness.hyp_search(ctx, st.tuples(*strat_parts), drawn.append, max_examples=n_draw, chunk=n_draw,
                           extra_seed=("cell", cid))
        core = core_pairs(cell)
        if ff:
            # one program per pair: a few core pairs + the first drawn ones that are judged
            cp = prepare(ctx, cell, rt, core, count_excl=False)
            dp = prepare(ctx, cell, rt, drawn)
            k = P["ffloor_pairs"]
            cand, seen_cls, first, rest = cp[ci % 3::3][:max(1, k // 3)] + dp + cp, set(), [], []
            for p in cand:  # one pair of every (unexcluded) finding class first, then in draw order
                kc = known_class(cell, p)
                (first if kc and kc not in seen_cls else rest).append(p)
                seen_cls.add(kc)
            sel = []
            for p in rest[:1] + first + rest[1:]:
                if p not in sel:
                    sel.append(p)
            sel = sel[:max(k, len(first) + 1)]
            if not sel:
                ctx.label("cell:no_defined_pairs")
            singles.extend((cell, rt, p) for p in sel)
            continue
        pairs = prepare(ctx, cell, rt, core + drawn)
        # raw-Python reading (no coercion): count, do not judge (see assumptions)
        if len(forms) == 2 and len({KIND[f] for f in forms}) == 2 and cell["op"] in PYOP:
            j = join_kind(cell)
            for p in pairs:
                if any(coerce(v, KIND[f], j) != v for v, f in zip(p, forms)):
                    try:
                        r0 = PYOP[cell["op"]](*p)
                        r1 = py_value(cell, p)
                        if not same(reduce_to(r0, rt), reduce_to(r1, rt), rt):
                            key = f"{combo_name(cell)}.{cell['op']}"
                            raw_python_differs[key] = raw_python_differs.get(key, 0) + 1
                            ctx.label("lossy_coercion_changes_python_result")
                    except Exception:  # noqa: BLE001
                        pass
        if not pairs:
            ctx.label("cell:no_defined_pairs")
            continue
        B, L = P["batch"], 16
        start = 0
        litpos = [i for i, f in enumerate(forms) if f in LIT]
        while start < len(pairs):
            chunk_p, lits = [], set()
            while start < len(pairs) and len(chunk_p) < B:
                if litpos:
                    lv = repr(pairs[start][litpos[0]])
                    if lv not in lits and len(lits) >= L:
                        break
                    lits.add(lv)
                chunk_p.append(pairs[start])
                start += 1
            units.append((cell, rt, chunk_p))

    # several cells share one compiled program (the selene build dominates the cost)
    progs, cur, cur_n = [], [], 0
    for u in units:
        if cur and (len(cur) >= P["cells_per_program"] or cur_n + len(u[2]) > P["pairs_per_program"]):
            progs.append(cur)
            cur, cur_n = [], 0
        cur.append(u)
        cur_n += len(u[2])
    if cur:
        progs.append(cur)
    left = len(progs) + len(singles)
    for prog in progs:
        if ctx.out_of_time(0.85):
            break
        for (cell, rt, _), (v, pr) in zip(prog, run_units(prog)):
            record(cell, rt, v, pr)
        left -= 1
        nprog[0] += 1
    for cell, rt, p in singles:
        if ctx.out_of_time(0.9):
            break
        v, pr = run_pairs(cell, rt, [p], const_form=True)
        record(cell, rt, v, pr)
        left -= 1
        nprog[0] += 1
    if left:
        # a time budget hit is inconclusive, never a violation and not a harness failure: report it
        ctx.notes[f"time_budget_cut_shard{ctx.shard}"] = f"{left} programs unevaluated"
        ctx.label("programs_unevaluated_time_budget", left)

    # minimise every new bucket over a grid of small operands of its cell (one program)
    for nb, (b, (cell, rt)) in enumerate(sorted(new_buckets.items())):
        if nb >= 8:  # bound the extra builds when one root cause fans out into many operand classes
            break
        if ctx.out_of_time(0.97) or ".result_type" in b or b.endswith((".invalid_hugr", ".compile_crash")):
            continue
        cols = [(LITPOOL[f][:6] if f in LIT else GRID[KIND[f]]) for f in cell["forms"]]
        gp = prepare(None, cell, rt, list(itertools.product(*cols)))
        size = lambda p: sum(len(repr(abs(x))) for x in p)  # noqa: E731
        sel = sorted(gp, key=lambda t: (size(t), repr(t)))
        if needs_ffloor(cell):
            for p in sel[:6]:
                v, pr = run_pairs(cell, rt, [p], const_form=True)
                record(cell, rt, v, [], label_cases=False, only_bucket=b)
        elif sel:
            v, pr = run_pairs(cell, rt, sel[:150])
            record(cell, rt, v, [], label_cases=False, only_bucket=b)
    ctx.notes[f"programs_built_shard{ctx.shard}"] = nprog[0]

    # fixed probes of the confirmed classes (reported in the evidence, never a violation by
    # themselves), spread over the shards
    for n, (b, case) in enumerate(sorted(PROBES.items())):
        if n % ctx.nshards != ctx.shard or ctx.out_of_time(0.99):
            continue
        try:
            r = replay(case)
        except Exception as e:  # noqa: BLE001
            ctx.notes["probe:" + b] = f"probe crashed: {e!r}"
            continue
        ctx.notes["probe:" + b] = (("still fails: " + r[1]) if r else "passes now") + (
            f"  [bucket now {r[0]}]" if r and r[0] != b else "")
    if notes_unsup:
        ctx.notes[f"unsupported_cells_shard{ctx.shard}"] = notes_unsup
    if raw_python_differs:
        ctx.notes[f"uncoerced_python_reading_differs_shard{ctx.shard}"] = raw_python_differs


SPEC = harness.Spec(
    PROP, worker, replay,
    rule=("cells = {20 binary operators/builtins} x {48 operand form pairs over int/nat/float/bool variables and "
          "int/negative-int/float/bool literals, >=1 variable} + {11 unary operators/conversions} x {4 variable "
          "types}, all enumerated each run; a cell rejected by the checker is outside the domain. Per accepted cell: "
          "core cross product of small/extreme values (enumerated) + Hypothesis-drawn pairs (boundary set U random "
          "magnitudes; shift counts in [0,64), non-negative int exponents, non-zero divisors, in-range float->int "
          "sources, integer exponents <= 10^6 by construction; pairs where CPython raises are dropped), evaluated as runtime operands by one "
          "compiled program per <=batch pairs; float // % divmod cells one pair per program in constant form. "
          "non-trivial = pair with a boundary value or a sign pattern other than all-positive (bool: contains "
          "False); distinct = distinct (cell, operand pair). Oracle: CPython on operands coerced to the join type, "
          "reduced mod 2^64 to the result type; bit-exact except float ** (2 ulp)."),
    assumptions=[
        "coerced forms are judged under the coercion reading: both operands are first converted to the join type "
        "(nat->int reinterprets mod 2^64, int/nat->float rounds to nearest like CPython float()), then CPython's "
        "operator is applied; pairs where the uncoerced CPython result would differ (nat >= 2^63 against int, "
        "|int| > 2^53 compared with float) are counted in notes, not judged",
        "int/int and nat/nat true division is only judged when both |operands| <= 2^53 (documented float(a)/float(b))",
        "float ** float is judged with a tolerance of 2 ulp against CPython's libm pow (literal power-of-two base 2^n, "
        "|n|>=2: 2 + 1.4*|n*y| ulp, because selene's LLVM rewrites pow(2^n, y) to exp2(n*y)); all other float results bit-exact",
        "inf / nan operands are not generated (selene cannot build inf/nan constants); inf results of finite operands are",
        "nat observations are compared modulo 2^64 (the result channel may report them signed: property C17)",
        "unary operators and conversions are applied to variables only; literal-literal cells are not generated",
        "integer exponents are bounded by 10^6: the installed emulator lowers ipow to a loop that is linear in the "
        "exponent (2^63-1 does not terminate in practical time) - toolchain cost, not judged",
        "Hypothesis' own draw distribution and CPython's arithmetic are trusted",
    ],
    shards={"quick": 16, "thorough": 16},
    budget_s={"quick": 240, "thorough": 3600},
    params={"quick": {"pairs": 24, "batch": 256, "lit_extra": 1, "ffloor_pairs": 1, "ffloor_draw": 12,
                      "cells_per_program": 24, "pairs_per_program": 2400},
            "thorough": {"pairs": 1000, "batch": 256, "lit_extra": 10, "ffloor_pairs": 18, "ffloor_draw": 200,
                         "cells_per_program": 8, "pairs_per_program": 1200}},
    min_nontrivial=5000,
)

if __name__ == "__main__":
    harness.main(SPEC)
