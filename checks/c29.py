"""C29 Diagnostic rendering is total and faithful.

Domain (GenDiag): a source file (1-40 drawn lines from a few line templates, optionally behind
7..1000 filler lines so that line numbers cross the 9/10, 99/100, 999/1000 gutter widths) with a
drawn base indentation 0-40 (beyond the trimming threshold of 12), per-line extra indentation,
blank / whitespace-only / dedented lines; a primary `Error` with a span inside the file (empty,
single-line, two-line, 3+ lines; columns anywhere in [0, len(line)]) or without span; 0-3 `Note`
/ `Help` sub-diagnostics (span+label, span only, message only, span+label+message); titles, labels
and messages built from word lists (short words, 30-59 character words, words longer than the
60 / 80 character wrap widths, hyphenated words) joined by single spaces, double spaces and
explicit newlines.  Diagnostics are frozen dataclasses implementing the Error/Note/Help protocols;
spans are handed over as `Span` objects or (about a quarter) as annotated ast nodes (`ToSpan`);
the observation is `DiagnosticsRenderer.buffer`.

Registration (about half each): `SourceMap.add_file(file, content)` with the explicit text, or
`SourceMap.add_file(file)` which reads the file through `linecache` like the compiler does for parsed
definitions - a real file written below a per-process scratch directory (line ends \n, \r\n or \r)
for path-like names, an injected `linecache.cache` entry for pseudo files (`<In[3]>`, as IPython /
doctest do).  Files read through linecache may carry the characters that `str.splitlines` treats as
line boundaries but Python's tokenizer / ast / linecache do not (\v \f \x1c-\x1e \x85 U+2028 U+2029)
in the middle of a physical line.  About a third of the cases have a registration HISTORY on the same
`SourceMap`: 1-2 earlier registrations of the same file with an older text (the file was edited and
its definitions parsed again) or of another file; the diagnostic is rendered against the LAST
registration of its file.

Findings of this check on the unchanged tree (re-open all with C29_EXCLUDE=none):
  wrap.longword_split / wrap.hyphen_break        `wrap` keeps textwrap's break_long_words /
                                                 break_on_hyphens defaults
  render.raises.InternalGuppyError@span.py:__len__ , sub.empty_span_dropped
                                                 `if child.span` / `if sub_diag.span` call Span.__len__
  render.raises.AssertionError@span.py:shift_left  span column inside the trimmed indentation

Oracle: a parser of the layout documented in the docstrings of `render_diagnostic` /
`render_snippet` / `wrap`, the documented renderer constants (12 / 4 / 60 / 80 / 2) and the golden
snapshots of tests/diagnostics, written from the property statement:
  * rendering does not raise;
  * header `Level: title (at file:line:col)`;
  * every snippet: padding line, up to 2 context lines (primary only), first/last span line, each as
    `N | text` with the true line number right-justified to the width of the largest end line and
    text = source line minus ONE per-snippet amount k of leading columns (k = common indentation - 4
    if the common indentation of the displayed range exceeds 12, else 0; if a span column lies
    inside those k columns, trimming only up to that column is accepted as well);
  * marker runs (`^` primary, `-` sub) start at (start column - k) and have exactly the length of
    the spanned columns of the first / last line; `...` replaces the middle of 3+ line spans;
  * label behind the last marker run after one space, continuation lines aligned under it;
  * messages after an empty line, sub-diagnostic messages prefixed with their level;
  * re-joining the wrapped lines of a label / message paragraph gives exactly the original word
    sequence (no word lost, none split), explicit newlines start a new line, no line with more than
    one word exceeds the width and no line was broken although the next word still fitted.
"""
import os
import re
import sys
import traceback

sys.path.insert(0, os.path.dirname(os.path.dirname(os.path.abspath(__file__))))
from vlib import harness  # noqa: E402

PROP = "C29"

# Input classes left out by construction (AUTHORING requirement 1) so that the search continues
# behind a confirmed finding. Every substitution is counted through ctx.exclude().
#   "longword"  words longer than the wrap width of their context (bucket wrap.longword_split)
#   "hyphen"    hyphenated words in labels / messages              (bucket wrap.hyphen_break)
#   "span_in_trimmed_indent"  span start/end column inside the leading whitespace that the
#               renderer trims away (bucket render.raises.AssertionError@span.py:shift_left)
#   "sub_span_truthiness"  sub-diagnostic whose span is a multi-line or empty `Span` OBJECT
#               (buckets render.raises.InternalGuppyError@span.py:__len__, sub.empty_span_dropped);
#               such spans are passed as annotated ast nodes instead (ToSpan = ast.AST | Span)
EXCLUDE = {"longword", "hyphen", "span_in_trimmed_indent"}  # sub_span_truthiness: fixed in /repo (53076e7)
if "C29_EXCLUDE" in os.environ:      # e.g. C29_EXCLUDE=none re-opens every class (to re-confirm the findings)
    EXCLUDE = set(filter(None, os.environ["C29_EXCLUDE"].split(","))) - {"none"}

# documented constants of the layout (doc comments of DiagnosticsRenderer); deliberately NOT read
# from the class under test
MAX_LEAD = 12
OPT_LEAD = 4
LABEL_W = 60
MSG_W = 80
PREFIX = 2

LEVEL = {"error": "Error", "note": "Note", "help": "Help"}

# ----------------------------------------------------------------------------- word lists
W_SHORT = ["a", "is", "the", "qubit", "value", "not", "used", "here.", "Comparison", "attempted",
           "(BMJ,", "2000),", "`int`", "expected", "but", "got", "x", "of", "type", "Variable",
           "can't", "be", "moved", "twice;", "see", "Å", "fix:", "|", "^x", "x^", "a.b", "§3"]
W_MEDIUM = ["https://doi.org/10.1136%2Fbmj.321.7276.1569",
            "guppylang_internals.checker.linearity_checker",
            "array[tuple[int,float,bool],123456789]",
            "abcdefghijklmnopqrstuvwxyzABCDEFGHIJKLMNOPQRSTUVWXYZ0123456"]          # 30..59
W_LONG = [("L61_" + "abcdefghij" * 12)[:61], ("L70_" + "0123456789" * 12)[:70],
          ("L80_" + "abcdefghij" * 12)[:80], ("L81_" + "abcdefghij" * 12)[:81],
          ("L120_" + "xyzuvw" * 30)[:120]]
W_HYPH = ["well-known", "non-unitary", "type-checker", "left-to-right", "re-use", "copy--drop",
          "compile-time-evaluated-expression"]
# index table, simplest first (Hypothesis shrinks towards index 0)
WORDS = W_SHORT + W_MEDIUM + W_HYPH + W_LONG
# weighted pick: ints 0..99 -> word
PICK = ([i for i in range(len(W_SHORT))] * 2
        + [len(W_SHORT) + i for i in range(len(W_MEDIUM))] * 2
        + [len(W_SHORT) + len(W_MEDIUM) + i for i in range(len(W_HYPH))] * 2
        + [len(W_SHORT) + len(W_MEDIUM) + len(W_HYPH) + i for i in range(len(W_LONG))] * 2)
SEPS = [" "] * 16 + ["\n", "\n", "\n\n", "  "]            # index 0..19
_HYPH_RE = re.compile(r"\w-+\w")

SRC_TOK = ["x", "=", "foo(", ")", "def", "return", "apple", "==", "orange", "q0,", "lam", "'s|t'",
           "|", "^^", "--", "...", "#", "a_long_identifier_name", "1234567890", "é→λ", "[i]", ":",
           "if", "not", "变量", "    ", " | "]
# tokens with a character at which str.splitlines() splits but Python's universal-newline reading
# (tokenizer, ast line numbers, linecache, inspect) does not; always between two non-space characters.
# Only used in sources that are read through linecache (explicit content is defined by splitlines).
LB_TOK = ["'a\x0cb'", "#\u2028§", "s\x0bt", "'\x1c'", "x\x1dy", "p\x1eq", "n\x85m", "u\u2029v"]
LB_CHARS = "\x0b\x0c\x1c\x1d\x1e\x85\u2028\u2029"
FILES = ["<unknown>", "a.py", "pkg/mod.py", "<In[3]>"]
EOLS = ["\n", "\n", "\r\n", "\r"]
BASE_INDENT = [16, 0, 0, 4, 8, 12, 13, 14, 17, 20, 24, 33, 40]
PADS = [0, 0, 0, 0, 7, 8, 9, 97, 98, 99, 998, 1000]


# ----------------------------------------------------------------------------- case helpers
def raw_lines(case):
    """physical lines of the source text as written"""
    n, text = case.get("pad", [0, ""])
    return [text] * n + list(case["lines"])


def expand_lines(case):
    """lines of the REGISTERED source: the physical lines; for a file read through linecache without
    their (invisible) trailing whitespace, see SPEC.assumptions"""
    L = raw_lines(case)
    if case.get("reg", "content") == "file":
        L = [x.rstrip() for x in L]
    return L


def source_text(case, eol="\n"):
    return eol.join(raw_lines(case)) + (eol if case.get("trailing_nl", True) else "")


_SCRATCH = []


def scratch_dir():
    if not _SCRATCH:
        import atexit
        import shutil
        import tempfile
        _SCRATCH.append(tempfile.mkdtemp(prefix="c29_src_"))
        atexit.register(shutil.rmtree, _SCRATCH[0], ignore_errors=True)
    return _SCRATCH[0]


def actual_file(name, reg):
    """file name under which the source is known to the SourceMap"""
    if reg == "file" and not name.startswith("<"):
        return os.path.join(scratch_dir(), name)
    return name


def register(sm, entry, touched):
    """One registration step on SourceMap `sm`. entry: file / reg / pad / lines / trailing_nl / eol.
    reg == "content": add_file(file, text).  reg == "file": add_file(file) - the text is looked up
    through linecache, which is refreshed first (inspect.getsourcelines -> linecache.checkcache does
    that in the compiler): real file on disk, or an injected cache entry for pseudo file names."""
    import linecache

    reg = entry.get("reg", "content")
    name = actual_file(entry["file"], reg)
    if reg == "content":
        sm.add_file(name, source_text(entry))
        return name
    raw = raw_lines(entry)
    touched.append(name)
    if name.startswith("<"):
        linecache.cache[name] = (len(source_text(entry)), None, [x + "\n" for x in raw], name)
    else:
        os.makedirs(os.path.dirname(name), exist_ok=True)
        with open(name, "w", encoding="utf-8", newline="") as f:
            f.write(source_text(entry, entry.get("eol", "\n")))
        linecache.cache.pop(name, None)
    # harness soundness, independent of the SourceMap under test
    seen = [x[:-1] if x.endswith("\n") else x for x in linecache.getlines(name)]
    if seen != raw:
        raise ValueError(f"unsound case: linecache does not show the intended physical lines for {name!r}: "
                         f"{seen[:5]!r} != {raw[:5]!r}")
    sm.add_file(name)
    return name


def lead(line):
    n = 0
    while n < len(line) and line[n].isspace():
        n += 1
    return n


def trim_amount(L, span, prefix_max):
    """(number of context lines, trimmed columns k) for a snippet, from the documented rule:
    more than 12 columns of indentation common to the displayed range are cut down to 4."""
    l0, _, l1, _ = span
    p = min(prefix_max, l0 - 1)
    common = min(lead(x) for x in L[l0 - 1 - p:l1])
    k = common - OPT_LEAD if common > MAX_LEAD else 0
    return p, k


def all_diags(case):
    yield "primary", case["primary"]
    for i, c in enumerate(case["children"]):
        yield f"child{i}", c


def build(case):
    """Diagnostic objects exactly like tests/diagnostics builds them."""
    import ast
    from dataclasses import dataclass
    from typing import ClassVar

    from guppylang_internals.diagnostic import Error, Help, Note
    from guppylang_internals.span import Loc, Span

    file = actual_file(case["file"], case.get("reg", "content"))

    def mk_span(s, form):
        if s is None:
            return None
        if form == "ast":
            # ToSpan = ast.AST | Span: a node annotated like ast_util.annotate_location does
            node = ast.Pass(lineno=s[0], col_offset=s[1], end_lineno=s[2], end_col_offset=s[3])
            node.file = file  # type: ignore[attr-defined]
            node.line_offset = 1  # type: ignore[attr-defined]
            return node
        return Span(Loc(file, s[0], s[1]), Loc(file, s[2], s[3]))

    def mk(base, d):
        t_, l_, m_ = d.get("title"), d.get("label"), d.get("message")
        if base is Error:
            @dataclass(frozen=True)
            class D(base):
                title: ClassVar[str] = t_
                span_label: ClassVar[str | None] = l_
                message: ClassVar[str | None] = m_
        else:
            @dataclass(frozen=True)
            class D(base):
                span_label: ClassVar[str | None] = l_
                message: ClassVar[str | None] = m_
        return D(mk_span(d["span"], d.get("form", "span")))

    diag = mk(Error, case["primary"])
    for c in case["children"]:
        diag.add_sub_diagnostic(mk(Note if c["level"] == "note" else Help, c))
    return diag


def render(case):
    """-> (buffer, None) or (None, (bucket, detail))"""
    from guppylang_internals.diagnostic import DiagnosticsRenderer
    from guppylang_internals.span import SourceMap

    import linecache

    L = expand_lines(case)
    if case.get("reg", "content") == "content" and source_text(case).splitlines() != L:
        raise ValueError("unsound case: source text does not split into the intended lines")
    for _, d in all_diags(case):
        s = d["span"]
        if s is not None:
            ok = (1 <= s[0] <= s[2] <= len(L) and 0 <= s[1] <= len(L[s[0] - 1])
                  and 0 <= s[3] <= len(L[s[2] - 1]) and (s[0], s[1]) <= (s[2], s[3]))
            if not ok:
                raise ValueError(f"unsound case: span {s} outside the registered source")
    diag = build(case)
    sm = SourceMap()
    touched = []
    try:
        for h in case.get("history", []):
            register(sm, h, touched)
        register(sm, case, touched)
    except ValueError:
        raise
    except Exception as e:  # noqa: BLE001
        tb = "".join(traceback.format_exception(type(e), e, e.__traceback__))[-1200:]
        return None, (f"register.raises.{type(e).__name__}", "registering the source raised:\n" + tb)
    finally:
        for name in touched:
            linecache.cache.pop(name, None)
    r = DiagnosticsRenderer(sm)
    try:
        r.render_diagnostic(diag)
    except Exception as e:  # noqa: BLE001
        where = "?"
        for fr in reversed(traceback.extract_tb(e.__traceback__)):
            if "guppylang" in fr.filename:
                where = f"{os.path.basename(fr.filename)}:{fr.name}"
                break
        tb = "".join(traceback.format_exception(type(e), e, e.__traceback__))[-1200:]
        return None, (f"render.raises.{type(e).__name__}@{where}", "rendering raised:\n" + tb)
    return list(r.buffer), None


# ----------------------------------------------------------------------------- oracle
_GUT = re.compile(r"^( *)(\d*) \| ")


class Mismatch(Exception):
    def __init__(self, bucket, msg):
        super().__init__(msg)
        self.bucket = bucket
        self.msg = msg


class Cursor:
    def __init__(self, buf):
        self.buf = buf
        self.i = 0

    def take(self, what):
        if self.i >= len(self.buf):
            raise Mismatch("output.truncated", f"output ends where {what} is expected")
        s = self.buf[self.i]
        self.i += 1
        if "\n" in s or "\r" in s:
            raise Mismatch("output.embedded_newline", f"buffer line {self.i - 1} contains a line break: {s!r}")
        return s

    def take_gutter(self, W, what):
        """-> (line number or None, text right of the bar)"""
        s = self.take(what)
        m = _GUT.match(s)
        if not m:
            raise Mismatch("gutter.format", f"{what}: expected `<N> | text`, got {s!r}")
        if len(m.group(1)) + len(m.group(2)) != W:
            raise Mismatch("gutter.width", f"{what}: number column should be {W} wide (largest end "
                                           f"line of all spans), got {s!r}")
        return (int(m.group(2)) if m.group(2) else None), s[W + 3:]


def classify_wrap(toks, ws, idx, width, more_paragraphs):
    for j, g in enumerate(toks):
        if idx + j >= len(ws):
            if more_paragraphs:
                return "wrap.newline_lost", f"line continues past an explicit newline with {g!r}"
            return "wrap.words_extra", f"unexpected extra word {g!r}"
        e = ws[idx + j]
        if g != e:
            if e.startswith(g) and j == len(toks) - 1:
                if len(e) > width:
                    return ("wrap.longword_split",
                            f"word of {len(e)} characters (> width {width}) was split after {len(g)} characters: "
                            f"{e!r} -> {g!r} | {e[len(g):]!r}")
                if g.endswith("-") or e[len(g):].startswith("-"):
                    return "wrap.hyphen_break", f"word {e!r} was broken at a hyphen: {g!r} | {e[len(g):]!r}"
                return "wrap.word_split", f"word {e!r} was split: {g!r} | {e[len(g):]!r}"
            return "wrap.words_changed", f"expected word {e!r}, got {g!r}"
    return "wrap.words_changed", "?"


def check_wrapped(pull, text, width, what):
    """`pull()` yields the content of the next rendered line of this text block (already
    stripped of gutter / alignment indent). Raises Mismatch."""
    paras = text.split("\n")
    for pi, p in enumerate(paras):
        pos = [(m.start(), m.end()) for m in re.finditer(r"\S+", p)]
        ws = [p[a:b] for a, b in pos]
        if not ws:
            ln = pull(f"empty line for the empty paragraph {pi} of the {what}")
            if ln.strip():
                raise Mismatch("wrap.newline_lost", f"{what}: expected an empty line (explicit blank "
                                                    f"paragraph), got {ln!r}")
            continue
        idx = 0
        prev_len = None
        while idx < len(ws):
            ln = pull(f"more words of the {what} ({ws[idx]!r} ...)")
            toks = ln.split()
            if not toks:
                raise Mismatch("wrap.words_missing", f"{what}: blank line where {ws[idx]!r} is expected")
            if toks != ws[idx:idx + len(toks)]:
                b, d = classify_wrap(toks, ws, idx, width, pi + 1 < len(paras))
                raise Mismatch(b, f"{what}: {d}; rendered line {ln!r}")
            ln = ln.strip()
            if len(toks) > 1 and len(ln) > width:
                raise Mismatch("wrap.too_long", f"{what}: line of {len(ln)} > {width} characters with "
                                                f"{len(toks)} words: {ln!r}")
            if prev_len is not None:
                sep = pos[idx][0] - pos[idx - 1][1]
                if prev_len + sep + len(ws[idx]) <= width:
                    raise Mismatch("wrap.broke_early", f"{what}: line broken before {ws[idx]!r} although "
                                                       f"{prev_len}+{sep}+{len(ws[idx])} <= {width}")
            prev_len = len(ln)
            idx += len(toks)


def check_snippet(cur, L, W, span, label, primary, tag):
    """A span column inside the indentation that would be trimmed leaves two faithful renderings:
    trim the documented amount and clip the highlight at column 0, or trim only as far as the span
    allows. Both are accepted (the statement does not choose); everything else has one reading."""
    p, k = trim_amount(L, span, PREFIX if primary else 0)
    cands = [k]
    if min(span[1], span[3]) < k:
        cands.append(min(span[1], span[3]))
    start = cur.i
    for n, kk in enumerate(cands):
        cur.i = start
        try:
            return _check_snippet(cur, L, W, span, label, primary, tag, p, kk)
        except Mismatch:
            if n == len(cands) - 1:
                raise


def _check_snippet(cur, L, W, span, label, primary, tag, p, k):
    l0, c0, l1, c1 = span
    ch = "^" if primary else "-"
    sfx = ".trim" if k else ""

    def src_row(n, role):
        num, text = cur.take_gutter(W, f"{tag} {role} line {n}")
        if num != n:
            raise Mismatch(f"lineno.{role}", f"{tag}: {role} line should be numbered {n} (true line "
                                             f"number), got {num}: text {text!r}")
        want = L[n - 1][k:]
        if text != want:
            raise Mismatch(f"source.text.{role}{sfx}", f"{tag}: line {n} should show {want!r} (source line "
                                                       f"minus {k} common leading columns), got {text!r}")

    def marker_row(cs, n, role, lab):
        num, text = cur.take_gutter(W, f"{tag} {role} marker line")
        if num is not None:
            raise Mismatch("marker.missing", f"{tag}: expected the {role} marker line, got numbered line {num}")
        a = 0
        while a < len(text) and text[a] == " ":
            a += 1
        if n > 0:
            b = a
            while b < len(text) and text[b] in "^-":
                b += 1
            run = text[a:b]
            if run and set(run) != {ch}:
                raise Mismatch("marker.char", f"{tag}: {role} markers should be {ch!r}, got {run!r}")
            if a != cs:
                raise Mismatch(f"marker.{role}.column{sfx}", f"{tag}: {role} marker run should start at column "
                                                            f"{cs} (span column {cs + k} - {k} trimmed), starts at {a}: {text!r}")
            if len(run) != n:
                raise Mismatch(f"marker.{role}.length{sfx}", f"{tag}: {role} marker run should cover {n} "
                                                            f"columns, covers {len(run)}: {text!r}")
            rest = text[b:]
        else:
            # empty highlight: no marker characters at all
            if not text.startswith(" " * cs) or text[cs:cs + 1] in ("^", "-") or (
                    not lab and text.strip()):
                raise Mismatch(f"marker.{role}.length{sfx}", f"{tag}: span covers no column of this line, expected "
                                                            f"no markers at column {cs}: {text!r}")
            if lab and text.strip() and lead(text) != cs + 1:
                raise Mismatch(f"marker.{role}.column{sfx}", f"{tag}: (empty) {role} highlight should sit at column "
                                                            f"{cs} with the label one space behind it: {text!r}")
            rest = text[cs:]
        if not lab:
            if rest.strip():
                raise Mismatch("label.unexpected", f"{tag}: text behind the markers but no label: {text!r}")
            return
        if not rest.startswith(" ") or rest[1:2] in ("", " "):
            raise Mismatch("label.separator", f"{tag}: label should follow the markers after one space: {text!r}")
        col = cs + n + 1
        state = {"first": True}

        def pull(what):
            if state["first"]:
                state["first"] = False
                return rest[1:]
            num2, t2 = cur.take_gutter(W, f"{tag} label continuation ({what})")
            if num2 is not None:
                raise Mismatch("wrap.words_missing", f"{tag}: numbered line {num2} where {what} is expected")
            if t2.strip() and lead(t2) != col:
                raise Mismatch("label.continuation_indent", f"{tag}: continuation line should be aligned "
                                                            f"under the label at column {col}: {t2!r}")
            return t2[col:] if t2.strip() else ""

        check_wrapped(pull, lab, LABEL_W, f"{tag} label")

    num, text = cur.take_gutter(W, f"{tag} padding line")
    if num is not None or text != "":
        raise Mismatch("snippet.padding", f"{tag}: snippet should start with an empty `|` line, got {num} {text!r}")
    for i in range(p):
        src_row(l0 - p + i, "context")
    if l1 > l0:
        src_row(l0, "first")
        cs = max(0, c0 - k)
        marker_row(cs, len(L[l0 - 1]) - k - cs if len(L[l0 - 1]) - k > cs else 0, "first", None)
        if l1 - l0 >= 2:
            num, text = cur.take_gutter(W, f"{tag} ellipsis")
            if num is not None or text != "...":
                raise Mismatch("snippet.ellipsis", f"{tag}: expected `...` for the omitted middle lines, "
                                                   f"got {num} {text!r}")
        src_row(l1, "last")
        marker_row(0, max(0, c1 - k), "last", label)
    else:
        src_row(l1, "last")
        cs = max(0, c0 - k)
        marker_row(cs, max(0, c1 - k) - cs, "last", label)


def check_layout(case, buf, _attribute=True):
    L = expand_lines(case)
    P = case["primary"]
    cur = Cursor(buf)

    def msg_pull(what):
        return cur.take(what)

    def level_prefix(level, text):
        first = cur.buf[cur.i] if cur.i < len(cur.buf) else ""
        want = LEVEL[level] + ":"
        tok = first.split(" ")[0]
        if tok.lower() != want.lower():
            raise Mismatch("message.level_prefix", f"expected a line starting with {want!r}, got {first!r}")
        return tok + " " + text

    try:
        if P["span"] is None:
            text = P["message"] or P["title"]
            check_wrapped(msg_pull, level_prefix("error", text), MSG_W, "span-less message")
        else:
            s = P["span"]
            head = cur.take("header")
            want = f"{LEVEL['error']}: {P['title']} (at {actual_file(case['file'], case.get('reg', 'content'))}:{s[0]}:{s[1]})"
            if head[:5].lower() != "error" or head[5:] != want[5:]:
                raise Mismatch("header", f"expected {want!r}, got {head!r}")
            spans = [s] + [c["span"] for c in case["children"] if c["span"] is not None]
            W = len(str(max(x[2] for x in spans)))
            check_snippet(cur, L, W, s, P["label"], True, "primary")
            for i, c in enumerate(case["children"]):
                if c["span"] is not None:
                    check_snippet(cur, L, W, c["span"], c["label"], False, f"sub{i}")
            if P["message"]:
                if cur.take("empty line before the message") != "":
                    raise Mismatch("message.separator", f"expected an empty line before the message, got {cur.buf[cur.i - 1]!r}")
                check_wrapped(msg_pull, P["message"], MSG_W, "message")
        for i, c in enumerate(case["children"]):
            if c["message"]:
                if cur.take(f"empty line before the message of sub{i}") != "":
                    raise Mismatch("message.separator", f"expected an empty line before the sub-diagnostic "
                                                        f"message, got {cur.buf[cur.i - 1]!r}")
                check_wrapped(msg_pull, level_prefix(c["level"], c["message"]), MSG_W, f"sub{i} message")
        if cur.i != len(buf):
            raise Mismatch("output.extra_lines", f"unexpected extra output from buffer line {cur.i}: {buf[cur.i]!r}")
    except Mismatch as m:
        if _attribute:
            dropped = [i for i, c in enumerate(case["children"]) if c["span"] is not None
                       and c.get("form", "span") == "span" and c["span"][:2] == c["span"][2:]]
            if dropped:
                alt = dict(case, children=[dict(c, span=None, label=None) if i in dropped else c
                                           for i, c in enumerate(case["children"])])
                if check_layout(alt, buf, _attribute=False) is None:
                    return ("sub.empty_span_dropped",
                            f"sub-diagnostic(s) {dropped} have an empty span (start == end) and were rendered as if "
                            f"they had no span at all (snippet and label missing); first deviation: {m.msg}")
        return m.bucket, m.msg + f"  [at buffer line {cur.i - 1}]"
    return None


def show(case, buf):
    s = f"file={case['file']!r} reg={case.get('reg', 'content')} history={[(h['file'], h['reg'], len(raw_lines(h))) for h in case.get('history', [])]} primary.span={case['primary']['span']} " \
        f"children={[(c['level'], c['span']) for c in case['children']]}\n"
    if buf is not None:
        s += "rendered:\n" + "\n".join(buf[:40])
    return s


def evaluate(case):
    buf, err = render(case)
    if err:
        return err[0], err[1] + "\n" + show(case, None)
    r = check_layout(case, buf)
    if r:
        return r[0], r[1] + "\n" + show(case, buf)
    return None


def replay(case):
    case = {k: v for k, v in case.items() if not k.startswith("_")}
    return evaluate(case)


# ----------------------------------------------------------------------------- labels
def describe(case):
    L = expand_lines(case)
    labs = []
    P = case["primary"]
    s = P["span"]
    nontrivial = False
    texts = []
    if s is None:
        labs.append("span:none")
    else:
        nl = s[2] - s[0]
        labs.append("span:single" if nl == 0 else "span:multi2" if nl == 1 else "span:multi3+")
        if (s[0], s[1]) == (s[2], s[3]):
            labs.append("span:empty")
        p, k = trim_amount(L, s, PREFIX)
        labs.append(f"context:{p}")
        if k:
            labs.append("indent:trimmed")
        elif s[1] > MAX_LEAD:
            labs.append("indent:col>12_untrimmed")
        if s[1] > MAX_LEAD or nl:
            nontrivial = True
        spans = [s] + [c["span"] for c in case["children"] if c["span"]]
        labs.append(f"gutter:{len(str(max(x[2] for x in spans)))}")
    if any(d.get("form") == "ast" for _, d in all_diags(case)):
        labs.append("form:ast")
    reg = case.get("reg", "content")
    labs.append("reg:content" if reg == "content" else
                "reg:file.lcache" if case["file"].startswith("<") else "reg:file.disk")
    if reg == "file" and not case["file"].startswith("<") and case.get("eol", "\n") != "\n":
        labs.append("eol:cr/crlf")
    if any(ch in x for x in raw_lines(case) for ch in LB_CHARS):
        labs.append("src:splitlines_char")
    if reg == "file" and raw_lines(case) != L:
        labs.append("src:trailing_ws_stripped")
    for h in case.get("history", []):
        labs.append("hist:same_file" if actual_file(h["file"], h["reg"]) == actual_file(case["file"], reg)
                    else "hist:other_file")
    labs.append(f"subs:{len(case['children'])}")
    for c in case["children"]:
        if c["span"] is not None:
            labs.append("sub:span+msg" if c["message"] else "sub:span")
            if trim_amount(L, c["span"], 0)[1]:
                labs.append("sub:trimmed")
            if c["span"][2] > c["span"][0]:
                labs.append("sub:multiline")
        else:
            labs.append("sub:nospan")
    for _, d in all_diags(case):
        if d.get("label"):
            texts.append(d["label"])
            if len(d["label"]) > LABEL_W:
                labs.append("label:long")
                if d["span"] is not None:
                    nontrivial = True
        if d.get("message"):
            texts.append(d["message"])
            if len(d["message"]) > MSG_W:
                labs.append("msg:long")
    if not P.get("label"):
        labs.append("label:none")
    if any("\n" in t for t in texts):
        labs.append("text:newline")
    if any(len(w) > LABEL_W for t in texts for w in t.split()):
        labs.append("text:longword")
    if any(_HYPH_RE.search(w) for t in texts for w in t.split()):
        labs.append("text:hyphen")
    return sorted(set(labs)), nontrivial


# ----------------------------------------------------------------------------- generator
def gen_diag(st):
    NW, NS = len(PICK), len(SEPS)
    # one integer per word: word = v % NW, separator in front of it = v // NW (0 shrinks to "a", " ")
    text_items = st.lists(st.integers(0, NW * NS - 1), min_size=1, max_size=28)
    title_items = st.lists(st.integers(0, NW - 1), min_size=1, max_size=8)

    def mk_text(items, width, excl, seps=True):
        out = []
        for n, v in enumerate(items):
            w = WORDS[PICK[v % NW]]
            if width is not None:
                if "longword" in EXCLUDE and len(w) > width:
                    excl.append("longword (word longer than the wrap width)")
                    w = "longish"
                if "hyphen" in EXCLUDE and _HYPH_RE.search(w):
                    excl.append("hyphen (hyphenated word in wrapped text)")
                    w = w.replace("-", "_")
            if n:
                out.append(SEPS[v // NW] if seps else " ")
            out.append(w)
        return "".join(out)

    line_tmpl = st.tuples(st.sampled_from([0, 0, 0, 4, 8, 1, 2]),          # extra indentation
                          st.sampled_from([0] * 12 + [1, 2, 3]),           # 1 blank 2 ws-only 3 dedent
                          st.lists(st.integers(0, len(SRC_TOK) + len(LB_TOK) - 1), min_size=0, max_size=9))
    KINDS = ["single"] * 4 + ["multi2"] * 3 + ["multi3"] * 3 + ["empty"]
    dice = st.sampled_from(range(12))

    @st.composite
    def span_in(draw, L, lo):
        """span inside L; `lo` = number of filler lines in front of the drawn lines"""
        N = len(L)
        kind = draw(st.sampled_from(KINDS))
        first = max(1, min(lo + 1, N))
        d = draw(dice)
        # NB Hypothesis over-represents index 0 of every choice (zero-extended examples), so the
        # common alternative is always the one at 0 and rare alternatives sit at the high end
        if d == 11:
            a = draw(st.integers(1, N))                       # anywhere, also inside the filler
        elif d <= 2:
            a = min(N, first + 2 - d)                         # 2 / 1 / 0 context lines available
        else:
            a = draw(st.integers(first, N))
        if kind in ("single", "empty"):
            b = a
        else:
            if kind == "multi2":
                b = a + 1
            else:
                b = a + draw(st.integers(2, 9))
            if b > N:                                         # keep the span multi-line if the file allows
                a, b = max(1, a - (b - N)), N
            if a == b:
                kind = "single"

        def col(line):
            n = len(line)
            how = draw(dice)
            if how <= 4:
                return lead(line) if how else min(n, lead(line) + 1)
            if how <= 6:
                return n
            return draw(st.integers(0, n))

        c0 = col(L[a - 1])
        if kind == "empty":
            c1 = c0
        elif a == b:
            how = draw(dice)
            n = len(L[a - 1])
            c1 = min(n, c0 + draw(st.integers(1, 12))) if how <= 5 else n if how <= 8 else draw(st.integers(c0, n))
        else:
            c1 = len(L[b - 1]) if draw(dice) <= 5 else col(L[b - 1])
        return [a, c0, b, c1]

    def clamp(L, span, prefix_max, excl):
        if "span_in_trimmed_indent" in EXCLUDE:
            _, k = trim_amount(L, span, prefix_max)
            if k and (span[1] < k or span[3] < k):
                excl.append("span_in_trimmed_indent (span column inside the trimmed leading whitespace)")
                span = [span[0], max(span[1], k), span[2], max(span[3], k)]
        return span

    def pick_form(draw, sp, child, excl):
        """`ast` = annotated ast node instead of a Span object (ToSpan allows both); only where
        to_span's `end_col_offset or col_offset` is the identity."""
        ok_ast = sp[3] != 0 or sp[1] == 0
        form = "ast" if ok_ast and draw(dice) >= 9 else "span"
        if (child and form == "span" and "sub_span_truthiness" in EXCLUDE
                and (sp[2] > sp[0] or sp[:2] == sp[2:])):
            excl.append("sub_span_truthiness (multi-line or empty Span object on a sub-diagnostic; passed as ast node)")
            if not ok_ast:
                sp[1] = 0
            form = "ast"
        return form

    @st.composite
    def diag(draw):
        excl = []
        # how the source gets into the SourceMap: explicit content, or looked up through linecache
        reg = draw(st.sampled_from(["content", "file"]))
        # line-boundary characters of str.splitlines inside a physical line: only meaningful for a file
        # read with Python's own line splitting (explicit content is split by splitlines by definition)
        lb = reg == "file" and draw(st.booleans())

        def tok(t):
            if t < len(SRC_TOK):
                return SRC_TOK[t]
            return LB_TOK[t - len(SRC_TOK)] if lb else SRC_TOK[t - len(SRC_TOK)]

        base = draw(st.sampled_from(BASE_INDENT) | st.integers(0, 40))
        tmpls = draw(st.lists(line_tmpl, min_size=1, max_size=6))
        rendered = []
        for extra, special, toks in tmpls:
            body = " ".join(tok(t) for t in toks)
            if special == 1:
                rendered.append("")
            elif special == 2:
                rendered.append(" " * (base + extra))
            elif special == 3:
                rendered.append(body)
            else:
                rendered.append(" " * (base + extra) + body)
        n = draw(st.sampled_from([3, 1, 2, 3, 4, 5, 6, 8, 12, 20, 40]))
        order = draw(st.lists(st.integers(0, len(rendered) - 1), min_size=n, max_size=n))
        lines = [rendered[i] for i in order]
        pad_n = draw(st.sampled_from(PADS))
        case = {"file": draw(st.sampled_from(FILES)), "pad": [pad_n, rendered[0]], "lines": lines}
        case["trailing_nl"] = True if lines[-1] == "" else draw(st.booleans())
        if reg == "file":
            case["reg"] = reg
            case["eol"] = draw(st.sampled_from(EOLS))
        if draw(dice) >= 8:
            # registration history of the same SourceMap: the file was registered before with an older
            # text (other selection of the lines, other number of lines in front), or another file was
            hist = []
            for _ in range(draw(st.sampled_from([1, 1, 2]))):
                same = draw(dice) <= 7
                hn = draw(st.sampled_from([1, 2, 3, 5, 8, 13]))
                horder = draw(st.lists(st.integers(0, len(rendered) - 1), min_size=hn, max_size=hn))
                hlines = [rendered[i] for i in horder]
                hist.append({"file": case["file"] if same else draw(st.sampled_from(FILES)),
                             "reg": draw(st.sampled_from(["file", "content"])),
                             "pad": [draw(st.sampled_from([0, 0, 2, 5, pad_n])), rendered[-1]],
                             "lines": hlines, "trailing_nl": True, "eol": draw(st.sampled_from(EOLS))})
            case["history"] = hist
        L = expand_lines(case)
        t_items = draw(title_items)
        title = mk_text(t_items, None, excl, seps=False)          # the header line is never wrapped
        if draw(dice) == 11:
            msg = mk_text(draw(text_items), MSG_W, excl) if draw(st.booleans()) else None
            if msg is None:
                title = mk_text(t_items, MSG_W, excl, seps=False)   # span-less: the title is wrapped
            case["primary"] = {"span": None, "title": title, "label": None, "message": msg}
            case["children"] = []
            if draw(st.booleans()):
                m = mk_text(draw(text_items), MSG_W, excl)
                case["children"].append({"level": draw(st.sampled_from(["note", "help"])), "span": None,
                                         "label": None, "message": m})
        else:
            sp = clamp(L, draw(span_in(L, pad_n)), PREFIX, excl)
            label = mk_text(draw(text_items), LABEL_W, excl) if draw(dice) <= 8 else None
            msg = mk_text(draw(text_items), MSG_W, excl) if draw(dice) >= 8 else None
            case["primary"] = {"span": sp, "form": pick_form(draw, sp, False, excl), "title": title,
                               "label": label, "message": msg}
            kids = []
            for _ in range(draw(st.sampled_from([1, 0, 0, 0, 1, 2, 3]))):
                kind = draw(st.sampled_from(["span+label", "span+label", "span", "msg", "msg", "span+label+msg"]))
                level = draw(st.sampled_from(["note", "help"]))
                csp = clamp(L, draw(span_in(L, pad_n)), 0, excl) if "span" in kind else None
                clab = mk_text(draw(text_items), LABEL_W, excl) if "label" in kind else None
                cmsg = mk_text(draw(text_items), MSG_W, excl) if "msg" in kind else None
                kid = {"level": level, "span": csp, "label": clab, "message": cmsg}
                if csp is not None:
                    kid["form"] = pick_form(draw, csp, True, excl)
                kids.append(kid)
            case["children"] = kids
        case["_excl"] = excl
        return case

    return diag()


# ----------------------------------------------------------------------------- worker
def worker(ctx):
    from hypothesis import strategies as st

    strat = gen_diag(st)
    ctx.notes["EXCLUDE"] = sorted(EXCLUDE)

    def strip(case):
        return {k: v for k, v in case.items() if not k.startswith("_")}

    def body(raw):
        for e in raw["_excl"]:
            ctx.exclude(e)
        case = strip(raw)
        labs, nontrivial = describe(case)
        buf, err = render(case)
        sample = {"primary_span": case["primary"]["span"], "n_lines": len(expand_lines(case)),
                  "labels": labs, "rendered": (buf or [])[:14]}
        ctx.case(case, nontrivial, labels=labs, sample=sample)
        if err:
            ctx.violation(err[0], case, err[1] + "\n" + show(case, None))
            return
        r = check_layout(case, buf)
        if r:
            ctx.violation(r[0], case, r[1] + "\n" + show(case, buf))

    harness.hyp_search(ctx, strat, body, max_examples=ctx.params["n"], chunk=250)

    # minimise each new bucket (capped)
    known, _ = harness.load_known(PROP)
    todo = [b for b in sorted(ctx.violations) if harness.match_known(known, b) is None][:5]
    for n, b in enumerate(todo):
        if ctx.out_of_time(1.5):
            break

        def fails(raw, b=b):
            r = evaluate(strip(raw))
            return r if r and r[0] == b else None

        best = harness.hyp_shrink(ctx, strat, fails, budget_s=ctx.params.get("shrink_s", 8), extra_seed=n)
        if best is not None:
            ctx.violation(b, strip(best[0]), best[1][1])


SPEC = harness.Spec(
    PROP, worker, replay,
    rule=("GenDiag (Hypothesis): source of 1-40 drawn lines (+0..1000 filler lines in front) with base "
          "indentation 0-40, an Error with an in-file span (empty / single / 2-line / 3+ lines, any columns "
          "within the lines; Span object or annotated ast node) or without span; source registered with explicit "
          "content or read through linecache (real file with \\n / \\r\\n / \\r line ends, or injected cache entry; "
          "then also with the extra line-boundary characters of str.splitlines inside physical lines), a third "
          "behind 1-2 earlier registrations of the same (older text) or another file; 0-3 Note/Help sub-diagnostics "
          "with/without span, texts from word "
          "lists incl. over-width and hyphenated words, double spaces and explicit newlines; rendered with "
          "DiagnosticsRenderer and parsed against the documented layout. non-trivial = primary span starting "
          "beyond column 12, or multi-line, or a span label longer than 60 characters; distinct = distinct case "
          "(source, spans, texts)"),
    assumptions=[
        "common indentation of a snippet = minimum number of leading whitespace characters over ALL lines from "
        "the first context line to the last span line (hidden middle lines and blank lines included, an empty "
        "line counts 0) - the reading under which the unchanged renderer is right",
        "a span whose start/end column lies inside the indentation that would be trimmed may either be clipped at "
        "column 0 or limit the trimming to its smallest column (both accepted)",
        "a sub-diagnostic that has both a span and a message shows both (statement: every word of every message)",
        "texts contain no `{`/`}` (placeholder formatting is not part of C29), no tabs and no leading/trailing "
        "or whitespace-only paragraphs; explicitly registered content contains no line-break characters other "
        "than the joining \\n (add_file(file, content) is defined through str.splitlines)",
        "a file registered without content (read through linecache) consists of the physical lines Python itself "
        "numbers (ends \\n, \\r\\n, \\r only - what ast line numbers refer to); its lines are shown without "
        "their trailing whitespace, and the common indentation is taken over those stripped lines",
        "registered source = the text of the LAST registration of the file on the SourceMap (linecache being up "
        "to date at that moment, as inspect.getsourcelines guarantees in the compiler)",
        "level words (Error/Note/Help) are compared case-insensitively (docstring says `note:`, snapshots `Note:`)",
    ],
    shards={"quick": 8, "thorough": 16},
    budget_s={"quick": 90, "thorough": 900},
    params={"quick": {"n": 1000, "shrink_s": 8}, "thorough": {"n": 30000, "shrink_s": 30}},
    min_nontrivial=1500,
)

if __name__ == "__main__":
    harness.main(SPEC)
