"""C21 Comptime functions agree with regular Guppy functions.

Domain: one expression body (a typed tree, well-typed by construction, depth <= 3) over traced
parameters `a b p s: int`, `n m: nat`, `x y z: float`, `c d: bool`, `t: tuple[int, float]`,
`xs: array[int, 3]`, `fs: array[float, 2]`, `st: S` (struct) and Python constants in either
operand position: every binary arithmetic / bitwise / comparison operator including all reflected
forms (`2 - a`, `2 >> a`, `2.0 ** s`, `3 // p`, `7 % p`, `1 << s`, `5 & a`, `2 < a`, ...), unary
`- + ~`, `int() float() bool() abs() len()`, tuple / array / struct construction and access, calls
to `@guppy` helper functions (with constants, coercions, tuples, arrays and structs as arguments).
Every operator application has at least one traced operand (a constant-only subexpression would
be evaluated by CPython in comptime mode, which is C04's comparison, not this one).  The *same
body text* is emitted under `@guppy` and under `@guppy.comptime`; `main` calls both on 2-3 drawn
input tuples; 20-30 cases share one emulated program.  Every run first enumerates ALL reflected
forms `constant OP traced` (18 operators x operand classes int/int, int/nat, float/int,
int/float, float/float, bool/bool = 74 forms, two constants each, split over the shards) and ALL
ordered pairs of Python constants that compare equal in Python but are different Guppy values
(0 / 0.0 / -0.0 / False, 1 / 1.0 / True, 2 / 2.0, -1 / -1.0: 22 pairs, two bodies each), both used
in ONE body - each as operand of an operator or helper call with a traced value, or as a bare
container element - and returned side by side in a tuple / array / struct, then searches random
trees (float constants include -0.0; a later float constant of a body repeats an earlier one or
is its signed-zero twin with probability 1/3).
Operand roles keep every operator defined: divisors are non-zero constants or the parameters
`p z m` (inputs drawn non-zero), shift amounts and exponents are small constants or `s m`
(inputs 0..6), `int(.)` is applied to floats of bounded magnitude only; runtime float `// %` and
`abs(float)` are not generated (no `ffloor` / `fabs` on selene 0.4.3, DESIGN 1.4).
Oracle: (1) both modes accept the body => the two result streams are identical for all inputs
(floats compared by repr: NaN = NaN, -0.0 != 0.0); (2) the generator only uses operations that
the property statement lists as common to both modes (pinned: accepted by both modes on the
unchanged tree), so a body accepted by one mode and rejected by the other is reported as
`availability.<mode>_rejects.<feature>`; a body rejected by both is outside the domain
(counted; > 3 % => exit 2).  A mismatching body is localised: every subexpression is re-run as a
body of its own and the smallest one that still disagrees names the bucket
(`reflected.rshift`, `builtin.float`, ...).
"""
import json
import os
import sys

sys.path.insert(0, os.path.dirname(os.path.dirname(os.path.abspath(__file__))))
from vlib import harness  # noqa: E402

PROP = "C21"

# Known-finding input classes left out by construction so that the search goes on behind them.
# Active only when known_findings.json lists the key for C21 or VERIF_C21_EXCLUDE=<key,..|all>
# forces it (`none` forces it off).
EXCLUDE = {
    # stage 2: a borrowed tuple whose copyable element is a bare variable (see vlib/c21_bodies.py)
    "borrowed_tuple_alias": "tuple with a bare-variable copyable element lent to a call that replaces it",
    # DunderMixin.__rrshift__ dispatches to `__pow__`: `const >> traced int` computes traced ** const
    "reflected.rshift": "Python constant >> traced int",
}


# fixed input of the class (known_findings.json probe): `2 >> a` with a = 3 -> @guppy 0, comptime 9
PROBES = {
    "borrowed_tuple_alias": {"body": {"stmts": [["tborrow", "s", "a", 0, "n"]], "inputs": [[1, 2, 3, 4, 6, 3]]}},
    "reflected.rshift": {"expr": {"k": "bin", "op": ">>", "l": {"k": "c", "v": "2", "t": "int"},
                                  "r": {"k": "p", "n": "a", "t": "int"}, "t": "int"}, "inputs": [{"a": "3"}]},
}


def active_exclusions():
    env = os.environ.get("VERIF_C21_EXCLUDE", "").strip()
    if env == "none":
        return set()
    act = set()
    if env:
        act |= set(EXCLUDE) if env == "all" else {k for k in env.split(",") if k in EXCLUDE}
    try:
        known, _ = harness.load_known(PROP)
        act |= {k["key"] for k in known if k.get("key") in EXCLUDE}
    except Exception:  # noqa: BLE001
        pass
    return act


# ------------------------------------------------------------------------------ fixed program parts
HELPERS = '''
@guppy.struct
class S:
    u: int
    v: float

@guppy
def g_add(a: int, b: int) -> int:
    return a + b

@guppy
def g_scale(x: float, k: int) -> float:
    return x * k

@guppy
def g_isneg(a: int) -> bool:
    return a < 0

@guppy
def g_sum3(xs: array[int, 3]) -> int:
    return xs[0] + xs[1] + xs[2]

@guppy
def g_mk(a: int, x: float) -> S:
    return S(a, x)

@guppy
def g_first(t: tuple[int, float]) -> int:
    return t[0]

@guppy
def g_swap(t: tuple[int, float]) -> tuple[float, int]:
    return t[1], t[0]

@guppy
def g_succ(n: nat) -> nat:
    return n + nat(1)

@guppy
def g_getv(s: S) -> float:
    return s.v
'''

# parameter -> (type, input class)
PARAMS = {
    "a": ("int", "int"), "b": ("int", "int"), "p": ("int", "pos"), "s": ("int", "small"),
    "n": ("nat", "nat"), "m": ("nat", "small_pos"),
    "x": ("float", "float"), "y": ("float", "float"), "z": ("float", "nonzero"),
    "c": ("bool", "bool"), "d": ("bool", "bool"),
    "t": ("tuple[int, float]", "tup"), "xs": ("array[int, 3]", "arr3"), "fs": ("array[float, 2]", "farr2"),
    "st": ("S", "struct"),
}
RANK = {"nat": 0, "int": 1, "float": 2}
OPNAME = {"+": "add", "-": "sub", "*": "mul", "/": "truediv", "//": "floordiv", "%": "mod", "**": "pow",
          "<<": "lshift", ">>": "rshift", "&": "and", "|": "or", "^": "xor",
          "==": "eq", "!=": "ne", "<": "lt", "<=": "le", ">": "gt", ">=": "ge"}
UNNAME = {"-": "neg", "+": "pos", "~": "invert"}
GUPPY_FUNCS = {"g_add", "g_scale", "g_isneg", "g_sum3", "g_mk", "g_first", "g_swap", "g_succ", "g_getv"}


# ------------------------------------------------------------------------------ expression trees
def render(e):
    k = e["k"]
    if k == "p":
        return e["n"]
    if k == "c":
        return f"({e['v']})" if e["v"].startswith("-") else e["v"]
    if k in ("bin", "cmp"):
        return f"({render(e['l'])} {e['op']} {render(e['r'])})"
    if k == "un":
        return f"({e['op']}{render(e['e'])})"
    if k == "call":
        return f"{e['f']}({', '.join(render(a) for a in e['a'])})"
    if k == "tup":
        return "(" + ", ".join(render(a) for a in e["es"]) + ")"
    if k == "arr":
        return "array(" + ", ".join(render(a) for a in e["es"]) + ")"
    if k == "st":
        return "S(" + ", ".join(render(a) for a in e["es"]) + ")"
    if k == "idx":
        return f"{render(e['e'])}[{e['i']}]"
    if k == "fld":
        return f"{render(e['e'])}.{e['f']}"
    raise ValueError(k)


def children(e):
    k = e["k"]
    if k in ("bin", "cmp"):
        return [e["l"], e["r"]]
    if k in ("un", "idx", "fld"):
        return [e["e"]]
    if k == "call":
        return list(e["a"])
    if k in ("tup", "arr", "st"):
        return list(e["es"])
    return []


def subtrees(e):
    out = [e]
    for ch in children(e):
        out += subtrees(ch)
    return out


def size(e):
    return 1 + sum(size(ch) for ch in children(e))


def is_const(e):
    return e["k"] == "c"


def traced(e):
    """does the expression contain a traced value?"""
    if e["k"] == "p":
        return True
    if e["k"] == "call" and e["f"] == "nat":
        return True  # nat(2) is a Guppy call in comptime mode
    if e["k"] == "call" and e["f"] == "len":
        return False  # comptime arrays are Python lists: len(..) is a Python int there, whatever the elements are
    if e["k"] == "idx" and e["e"]["k"] in ("tup", "arr") and isinstance(e.get("i"), int):
        # a literal index into a tuple / list display is the selected element (in comptime mode a Python value
        # if that element is a constant, whatever the other elements are)
        elems = e["e"].get("es") or e["e"].get("elems") or []
        if 0 <= e["i"] < len(elems):
            return traced(elems[e["i"]])
    return any(traced(ch) for ch in children(e))


def params_of(e):
    names = {s["n"] for s in subtrees(e) if s["k"] == "p"}
    return [p for p in PARAMS if p in names]


def feature(e):
    """root-cause class of the operation at the root of `e`"""
    k = e["k"]
    if k in ("bin", "cmp"):
        name = OPNAME[e["op"]]
        if is_const(e["l"]):
            return f"reflected.{name}"
        if is_const(e["r"]):
            return f"{'cmp' if k == 'cmp' else 'bin'}.{name}.const_right"
        return f"{'cmp' if k == 'cmp' else 'bin'}.{name}"
    if k == "un":
        return f"unary.{UNNAME[e['op']]}"
    if k == "call":
        return f"call.{e['f']}" if e["f"] in GUPPY_FUNCS else f"builtin.{e['f']}"
    if k == "tup":
        return "tuple.construct"
    if k == "arr":
        return "array.construct"
    if k == "st":
        return "struct.construct"
    if k == "idx":
        return "tuple.index" if e["e"]["t"].startswith("tuple") else "array.index"
    if k == "fld":
        return "struct.field"
    return "leaf." + k


def features(e):
    return sorted({feature(s) for s in subtrees(e) if s["k"] not in ("p", "c")})


# Python constants that compare (and hash) equal in Python but denote different Guppy values
EQ_GROUPS = [[("0", "int"), ("0.0", "float"), ("-0.0", "float"), ("False", "bool")],
             [("1", "int"), ("1.0", "float"), ("True", "bool")],
             [("2", "int"), ("2.0", "float")],
             [("-1", "int"), ("-1.0", "float")]]
EQ_PAIRS = [(c1, c2) for grp in EQ_GROUPS for c1 in grp for c2 in grp if c1 != c2]


def has_equal_constants(e):
    """two constants in the body that Python's == cannot tell apart although text or type differ"""
    cs = sorted({(s["v"], s["t"]) for s in subtrees(e) if s["k"] == "c" and s["t"] in ("int", "float", "bool")})
    val = {"True": 1, "False": 0}
    return any(float(val.get(v1, v1)) == float(val.get(v2, v2)) for i, (v1, _) in enumerate(cs) for v2, _ in cs[i + 1:])


def has_reflected(e):
    return any(s["k"] in ("bin", "cmp") and is_const(s["l"]) and traced(s["r"]) for s in subtrees(e))


# ------------------------------------------------------------------------------ programs
def fn_src(k, mode, e):
    dec = "@guppy" if mode == "g" else "@guppy.comptime"
    sig = ", ".join(f"{p}: {PARAMS[p][0]}" for p in params_of(e))
    return f"{dec}\ndef c{k}_{mode}({sig}) -> {e['t']}:\n    return {render(e)}\n\n"


def emit_src(k, mode, j, e, inp):
    call = f"c{k}_{mode}({', '.join(inp[p] for p in params_of(e))})"
    tag = f"c{k}.{mode}.{j}"
    ty = e["t"]
    if ty.startswith("tuple"):
        n = ty.count(",") + 1
        return f"    t{k}{mode}{j} = {call}\n" + "".join(
            f'    result("{tag}", t{k}{mode}{j}[{i}])\n' for i in range(n))
    if ty == "S":
        return (f"    t{k}{mode}{j} = {call}\n"
                f'    result("{tag}", t{k}{mode}{j}.u)\n    result("{tag}", t{k}{mode}{j}.v)\n')
    return f'    result("{tag}", {call})\n'


def program(cases, ks, modes="gc"):
    from vlib import runner

    src = runner.PRELUDE + HELPERS
    main = "@guppy\ndef main() -> None:\n"
    for k in ks:
        e = cases[k]["expr"]
        for mode in modes:
            src += fn_src(k, mode, e)
        for j, inp in enumerate(cases[k]["inputs"]):
            for mode in modes:
                main += emit_src(k, mode, j, e, inp)
    if not ks:
        main += "    pass\n"
    return src + main


def same(u, v):
    return repr(u) == repr(v)


def accept_kind(out):
    """ok | rejected (user error incl. GuppyComptimeError) | crash"""
    if out.kind == "ok":
        return "ok"
    if out.kind == "rejected":
        return "rejected"
    if out.kind == "crash" and type(out.exc).__name__ in ("GuppyComptimeError", "GuppyError", "GuppyTypeError"):
        return "rejected"
    return out.kind


def compile_each(cases, ks):
    """Compile every function of the listed cases on its own -> {k: {mode: Outcome}}"""
    from vlib import runner

    src = runner.PRELUDE + HELPERS
    for k in ks:
        for mode in "gc":
            src += fn_src(k, mode, cases[k]["expr"])
    lm = runner.load_module(src)
    res = {}
    try:
        for k in ks:
            res[k] = {}
            for mode in "gc":
                out, _pkg = runner.compile_def(getattr(lm.mod, f"c{k}_{mode}"), entry=False)
                res[k][mode] = out
    finally:
        lm.dispose()
    return res


def _why(out):
    if out.kind == "rejected":
        lines = [ln for ln in out.message.splitlines() if ln.strip()]
        return f"{out.title}: " + " ".join(ln.strip(" |^") for ln in lines[-4:] if "^" in ln or "|" not in ln)[:300]
    return (out.message.strip().splitlines() or ["?"])[-1][:300]


def _unsupported_why(msg):
    import re

    m = re.findall(r"unimplemented op: \w+|Caused by:.*?2: ([^\n]*)", msg, flags=re.S)
    ops = re.findall(r"unimplemented op: \w+", msg)
    return ops[0] if ops else (m[0] if m else msg[:120])


def _compare_streams(cases, ks, out, res):
    vals = {}
    for tag, v in out.stream:
        vals.setdefault(tag, []).append(v)
    for k in ks:
        diffs = []
        for j, inp in enumerate(cases[k]["inputs"]):
            g, c = vals.get(f"c{k}.g.{j}"), vals.get(f"c{k}.c.{j}")
            if g is None or c is None:
                res[k] = {"status": "generr", "detail": f"missing tags for case {k} input {j}"}
                break
            if not same(g, c):
                diffs.append((j, g, c))
        else:
            if diffs:
                j, g, c = diffs[0]
                g1, c1 = (g[0], c[0]) if len(g) == 1 and len(c) == 1 else (g, c)
                res[k] = {"status": "mismatch", "input": j,
                          "detail": f"inputs {cases[k]['inputs'][j]}: @guppy -> {g1!r}, @guppy.comptime -> {c1!r}"}
            else:
                res[k] = {"status": "agree", "values": vals.get(f"c{k}.g.0")}


def run_cases(cases):
    """Evaluate a list of cases.  -> list of result dicts:
    status agree | mismatch | onesided | both_reject | panic | unsupported | skipped | generr, + detail"""
    import re

    from vlib import runner

    res = [None] * len(cases)
    ks = list(range(len(cases)))
    compiled_each = False
    for _round in range(6):
        if not ks:
            return res
        out, lm = runner.run_source(program(cases, ks))
        if lm is not None:
            lm.dispose()
        if out.kind == "ok":
            _compare_streams(cases, ks, out, res)
            return res
        if out.kind in ("rejected", "crash", "invalid"):
            if compiled_each:
                for k in ks:
                    res[k] = {"status": "generr", "detail": f"functions compile one by one but the program is {out.kind}: "
                                                            f"{out.title} {out.message[-600:]}"}
                return res
            compiled_each = True
            per = compile_each(cases, ks)
            good = []
            for k in ks:
                g, c = accept_kind(per[k]["g"]), accept_kind(per[k]["c"])
                if g == "ok" and c == "ok":
                    good.append(k)
                elif g != "ok" and c != "ok":
                    res[k] = {"status": "both_reject",
                              "detail": f"@guppy: {_why(per[k]['g'])} | comptime: {_why(per[k]['c'])}"}
                else:
                    bad = per[k]["c"] if g == "ok" else per[k]["g"]
                    res[k] = {"status": "onesided", "who": "comptime" if g == "ok" else "guppy", "kind": accept_kind(bad),
                              "detail": f"accepted by {'@guppy' if g == 'ok' else '@guppy.comptime'}, "
                                        f"{accept_kind(bad)} by {'@guppy.comptime' if g == 'ok' else '@guppy'}: {_why(bad)}"}
            ks = good
            continue
        if out.kind == "unsupported":
            m = re.search(r"for function c(\d+)_[gc]\b", out.message)
            k = int(m.group(1)) if m else None
            if k is None or k not in ks:
                if len(ks) == 1:
                    k = ks[0]
                else:  # cannot name the culprit: halve
                    half = len(ks) // 2
                    for part in (ks[:half], ks[half:]):
                        sub = run_cases([cases[i] for i in part])
                        for i, r in zip(part, sub):
                            res[i] = r
                    return res
            res[k] = {"status": "unsupported", "detail": _unsupported_why(out.message)}
            ks = [i for i in ks if i != k]
            continue
        if out.kind == "panic":
            seen = {tag for tag, _ in out.stream}
            k = next((i for i in ks if any(f"c{i}.{m}.{j}" not in seen for j in range(len(cases[i]["inputs"])) for m in "gc")),
                     ks[0])
            res[k] = _panic_case(cases[k])
            ks = [i for i in ks if i != k]
            continue
        for k in ks:
            res[k] = {"status": "generr", "detail": f"unexpected outcome {out.kind}: {out.message[:300]}"}
        return res
    for k in ks:
        res[k] = {"status": "skipped", "detail": "batch needed too many re-runs"}
    return res


def _panic_case(case):
    """A single case whose program panicked: run each mode alone and compare the behaviour."""
    from vlib import runner

    outs = {}
    for mode in "gc":
        o, lm = runner.run_source(program([case], [0], modes=mode))
        if lm is not None:
            lm.dispose()
        outs[mode] = o
    g, c = outs["g"], outs["c"]
    if g.kind == "unsupported" or c.kind == "unsupported":
        return {"status": "unsupported", "detail": (g.message + c.message)[:300]}
    if g.kind == c.kind == "panic" and g.message == c.message and same([v for _, v in g.stream], [v for _, v in c.stream]):
        return {"status": "panic", "detail": f"both modes panic alike: {g.message}"}
    return {"status": "mismatch", "input": 0,
            "detail": f"@guppy -> {g.brief()[:200]}; @guppy.comptime -> {c.brief()[:200]}"}


def localise(case, r):
    """Smallest subexpression (as a body of its own, same inputs) that shows the same kind of
    disagreement.  -> (feature, minimal_case, result)"""
    subs = sorted(subtrees(case["expr"]), key=size)
    cand = []
    seen = set()
    for s in subs:
        if s["k"] in ("p", "c") or not params_of(s):
            continue
        key = render(s) + s["t"]
        if key in seen:
            continue
        seen.add(key)
        cand.append({"expr": s, "inputs": [{p: i[p] for p in params_of(s)} for i in case["inputs"]]})
    if not cand:
        return feature(case["expr"]), case, r
    if r["status"] == "onesided":  # acceptance is decided by compiling alone
        per = compile_each(cand, list(range(len(cand))))
        rs = []
        for k in range(len(cand)):
            g, c = accept_kind(per[k]["g"]), accept_kind(per[k]["c"])
            if (g == "ok") != (c == "ok"):
                bad = per[k]["c"] if g == "ok" else per[k]["g"]
                rs.append({"status": "onesided", "who": "comptime" if g == "ok" else "guppy", "kind": accept_kind(bad),
                           "detail": f"accepted by {'@guppy' if g == 'ok' else '@guppy.comptime'}, "
                                     f"{accept_kind(bad)} by {'@guppy.comptime' if g == 'ok' else '@guppy'}: {_why(bad)}"})
            else:
                rs.append({"status": "other"})
    else:
        rs = run_cases(cand)
    for c, rr in zip(cand, rs):
        if rr["status"] == r["status"] and rr.get("who") == r.get("who"):
            c1 = dict(c)
            if rr["status"] == "mismatch":
                c1["inputs"] = [c["inputs"][rr["input"]]]
            feat = feature(c["expr"])
            if c["expr"] is case["expr"] and len(cand) > 1 and has_equal_constants(c["expr"]):
                # no operation disagrees on its own, only their combination in one body does, and the body
                # uses constants that are equal in Python: the operations are not the signature
                feat = "constants.equal_in_python"
            return feat, c1, rr
    return feature(case["expr"]), case, r


def bucket_of(r, feat, e=None):
    if r["status"] == "mismatch":
        return feat
    if r["status"] == "onesided":
        if e is not None and e["k"] in ("bin", "cmp"):
            # an operator one mode lacks: the operand types, not the operator, are the signature
            feat = f"binop.{e['l']['t']}_{e['r']['t']}" + (".const_left" if is_const(e["l"]) else "")
        return f"availability.{r['who']}_{'rejects' if r['kind'] == 'rejected' else r['kind']}.{feat}"
    return None


def describe(case):
    e = case["expr"]
    return fn_src(0, "g", e) + fn_src(0, "c", e) + "inputs: " + json.dumps(case["inputs"])


def replay(case):
    if "probe" in case:
        case = PROBES[case["probe"]]
    if "body" in case:  # stage 2: statement-sequence body
        from vlib import c21_bodies

        vs, stt = c21_bodies.run_cases([case["body"]], exclude_alias=bool(case.get("exclude_alias")))
        if stt != "ok":
            raise harness.HarnessError(str(stt))
        return vs[0] if isinstance(vs[0], tuple) else None
    case = {"expr": case["expr"], "inputs": case["inputs"]}
    r = run_cases([case])[0]
    if r["status"] in ("mismatch", "onesided"):
        return (bucket_of(r, feature(case["expr"]), case["expr"]), r["detail"] + "\n" + describe(case))
    return None


# ------------------------------------------------------------------------------ generation
def P(n):
    return {"k": "p", "n": n, "t": PARAMS[n][0]}


def C(v, t):
    return {"k": "c", "v": v, "t": t}


def CALL(f, args, t):
    return {"k": "call", "f": f, "a": args, "t": t}


def num_join(lt, rt):
    return lt if RANK[lt] >= RANK[rt] else rt


_ARITH = ["+", "-", "*", "/", "//", "%", "**", "<<", ">>", "&", "|", "^"]
_CMPS = ["==", "!=", "<", "<=", ">", ">="]
# reflected forms: (left constant class, traced right operand class) -> operators
REFL_OPS = {"ii": _ARITH + _CMPS, "in": _ARITH + _CMPS, "fi": ["+", "-", "*", "/", "**"] + _CMPS,
            "if": ["+", "-", "*", "/", "**"] + _CMPS, "ff": ["+", "-", "*", "/", "**"] + _CMPS,
            "bb": ["&", "|", "^", "==", "!="]}
REFL_COMBOS = [(cls, op) for cls in ("ii", "in", "fi", "if", "ff", "bb") for op in REFL_OPS[cls]]


def strategies(excl, shard=0, nshards=1):
    from hypothesis import strategies as st

    INT_C = ["0", "1", "2", "3", "5", "7", "-1", "-2", "-7", "10", "255", "2147483648", "-4611686018427387904"]
    FLT_C = ["0.5", "1.5", "2.0", "-2.5", "0.0", "-0.0", "3.25", "-1.0", "100.0"]

    class G:
        """All choices come from one `random.Random` drawn from Hypothesis (st.randoms, seeded by the
        harness): uniform choices at every depth (Hypothesis' own integer draws are biased towards
        small values and repeat examples, which starves the later operators of a list)."""

        def __init__(self, rnd):
            self.rnd = rnd
            self.excluded = []
            self.fl_used = []

        def pick(self, xs):
            return self.rnd.choice(xs)

        def ri(self, lo, hi):
            return self.rnd.randint(lo, hi)

        def coin(self, num=1, den=2):
            return self.rnd.randrange(den) < num

        # ---- leaves
        def int_leaf(self):
            return P(self.pick(["a", "b", "a", "b", "p", "s"]))

        def int_const(self):
            return C(self.pick(INT_C), "int")

        def small_amount(self):
            """shift amount / exponent: int-typed, 0..6 at run time"""
            return C(self.pick(["0", "1", "2", "3", "4"]), "int") if self.coin() else P("s")

        def nonzero_int(self):
            return C(self.pick(["1", "2", "3", "7", "-2", "-3", "10"]), "int") if self.coin() else P("p")

        # ---- int
        def int_(self, d, allow_const=False):
            if d <= 0:
                if allow_const and self.coin(1, 3):
                    return self.int_const()
                return self.int_leaf()
            w = self.ri(0, 99)
            if w < 6:
                return self.int_leaf()
            if w < 40:  # arithmetic / bitwise with any operand order
                op = self.pick(["+", "-", "*", "&", "|", "^"])
                l, r = self.int_operand(d - 1, op), self.int_operand(d - 1, op)
                return self.as_int(self.fix_bin(op, l, r, lambda: self.int_(d - 1)))
            if w < 52:
                op = self.pick(["//", "%"])
                l = self.int_operand(d - 1, op)
                r = self.nonzero_int()
                return self.as_int(self.fix_bin(op, l, r, lambda: P("p")))
            if w < 64:
                op = self.pick(["<<", ">>"])
                l = self.int_operand(d - 1, op)
                r = self.small_amount()
                if is_const(l) and (is_const(r) or self.coin(1, 4)):
                    r = P(self.pick(["s", "s", "m"]))
                if op == ">>" and is_const(l) and r["t"] == "int" and "reflected.rshift" in excl:
                    self.excluded.append("reflected.rshift")
                    op = "<<"
                return self.fix_bin(op, l, r, lambda: P("s"))
            if w < 70:
                base = C(self.pick(["2", "3", "-2", "1", "0"]), "int") if self.coin() else P("s")
                ex = self.small_amount()
                return self.fix_bin("**", base, ex, lambda: P("s"))
            if w < 77:
                op = self.pick(["-", "+", "~"])
                return {"k": "un", "op": op, "e": self.int_(d - 1), "t": "int"}
            if w < 80:
                return CALL("abs", [self.int_(d - 1)], "int")
            if w < 85:
                which = self.ri(0, 2)
                arg = self.bounded_float(min(d - 1, 1)) if which == 0 else self.nat_(d - 1) if which == 1 else self.bool_(d - 1)
                return CALL("int", [arg], "int")
            if w < 88:
                arg = P("xs") if self.coin() else {"k": "arr", "es": [self.int_(0, True) for _ in range(self.ri(1, 3))]}
                if arg["k"] == "arr":
                    if not traced(arg):
                        arg["es"][0] = self.int_leaf()
                    arg["t"] = f"array[int, {len(arg['es'])}]"
                return CALL("len", [arg], "int")
            if w < 94:
                return self.access("int", d)
            which = self.ri(0, 2)
            if which == 0:
                return CALL("g_add", [self.int_(d - 1, True), self.int_(d - 1, True)], "int")
            if which == 1:
                return CALL("g_sum3", [self.arr_int3(d - 1)], "int")
            return CALL("g_first", [self.tup_if(d - 1)], "int")

        def as_int(self, e):
            return e if e["t"] == "int" else CALL("int", [e], "int")

        def int_operand(self, d, op):
            """int-typed operand, sometimes a constant, sometimes nat-typed (joins to int)"""
            w = self.ri(0, 9)
            if w < 3:
                return self.int_const()
            if w < 4 and op in ("+", "-", "*", "//", "%", "&", "|", "^"):
                return self.nat_(min(d, 1))
            return self.int_(d)

        def fix_bin(self, op, l, r, mk_traced):
            """every operator application needs a traced operand; result type by numeric join"""
            if not traced(l) and not traced(r):
                r = mk_traced()
            kind = "cmp" if op in ("==", "!=", "<", "<=", ">", ">=") else "bin"
            if kind == "cmp":
                t = "bool"
            elif op == "/":
                t = "float"
            elif l["t"] == "bool":
                t = "bool"
            else:
                t = num_join(l["t"], r["t"])
            return {"k": kind, "op": op, "l": l, "r": r, "t": t}

        # ---- nat
        def nat_c(self):
            return CALL("nat", [C(self.pick(["0", "1", "2", "3", "6"]), "int")], "nat")

        def nat_(self, d):
            if d <= 0:
                return P(self.pick(["n", "m", "n"]))
            w = self.ri(0, 99)
            if w < 15:
                return P(self.pick(["n", "m"]))
            if w < 55:
                op = self.pick(["+", "*", "&", "|", "^"])
                l = self.nat_(d - 1) if self.coin(3, 4) else self.nat_c()
                r = self.nat_(d - 1) if self.coin(3, 4) else self.nat_c()
                return self.fix_bin(op, l, r, lambda: P("n"))
            if w < 70:
                op = self.pick(["//", "%"])
                r = P("m") if self.coin() else CALL("nat", [C(self.pick(["1", "2", "5"]), "int")], "nat")
                return self.fix_bin(op, self.nat_(d - 1), r, lambda: P("m"))
            if w < 80:
                op = self.pick(["<<", ">>"])
                return self.fix_bin(op, self.nat_(d - 1), P("m"), lambda: P("m"))
            if w < 85:
                return self.fix_bin("**", P("m"), P("m") if self.coin() else CALL("nat", [C("2", "int")], "nat"), lambda: P("m"))
            if w < 92:
                return CALL("g_succ", [self.nat_(d - 1)], "nat")
            return CALL("nat", [P(self.pick(["p", "s"]))], "nat")

        # ---- float
        def flt_const(self):
            """a later float constant of the same body is, one time in three, an earlier one again or (for a
            zero) the zero of the other sign: equal in Python, not the same IEEE value"""
            if self.fl_used and self.coin(1, 3):
                v = self.pick(self.fl_used)
                v = {"0.0": "-0.0", "-0.0": "0.0"}.get(v, v)
            else:
                v = self.pick(FLT_C)
            self.fl_used.append(v)
            return C(v, "float")

        def const_use(self, c, bare_ok):
            """the constant c = (text, type) turned into a Guppy value: operand (either side) of an operator
            / argument of a helper applied to a traced leaf, or bare (a container element)"""
            v, t = c
            k = C(v, t)
            if bare_ok and self.coin(1, 6):
                return k
            if t == "float":
                w = self.ri(0, 5)
                if w == 0:
                    return CALL("g_scale", [k, P(self.pick(["s", "p"]))], "float")
                if w == 1:
                    return self.fix_bin("/", k, P(self.pick(["z", "p"])), None)
                op, q = self.pick(["*", "*", "*", "+", "-"]), P(self.pick(["x", "y", "z"]))
            elif t == "int":
                if self.coin(1, 6):
                    return CALL("g_add", [k, P("a")] if self.coin() else [P("b"), k], "int")
                op, q = self.pick(["+", "-", "*", "&", "|", "^"]), P(self.pick(["a", "b"]))
            else:
                op, q = self.pick(["&", "|", "^", "==", "!="]), P(self.pick(["c", "d"]))
            return self.fix_bin(op, k, q, None) if self.coin() else self.fix_bin(op, q, k, None)

        def eq_pair(self, c1, c2):
            """both constants used in one body, results side by side"""
            bare = self.ri(0, 2)  # which component may stay a bare constant (2: none)
            es = [self.const_use(c1, bare == 0), self.const_use(c2, bare == 1)]
            if is_const(es[0]) and is_const(es[1]):
                es[1] = self.const_use(c2, False)
            t1, t2 = es[0]["t"], es[1]["t"]
            if t1 == t2 and t1 in ("int", "float") and self.coin(1, 3):
                return {"k": "arr", "es": es, "t": f"array[{t1}, 2]"}
            if (t1, t2) == ("int", "float") and self.coin(1, 3):
                return {"k": "st", "es": es, "t": "S"}
            return {"k": "tup", "es": es, "t": f"tuple[{t1}, {t2}]"}

        def nonzero_div(self):
            w = self.ri(0, 5)
            return [C("2", "int"), C("-4.0", "float"), C("0.5", "float"), P("z"), P("p"), P("m")][w]

        def bounded_float(self, d):
            """float of bounded magnitude (<= ~1e6): safe argument of int()"""
            if d <= 0:
                return P(self.pick(["x", "y", "z"]))
            op = self.pick(["+", "-", "*", "/"])
            l = P(self.pick(["x", "y", "z"])) if self.coin(2, 3) else C(self.pick(["0.5", "2.5", "3", "-7"]),
                                                                         "float" if self.coin() else "int")
            if l["k"] == "c":
                l["t"] = "float" if "." in l["v"] else "int"
            if op == "/":
                r = P(self.pick(["z", "p"])) if self.coin() else C("0.5", "float")
            else:
                r = P(self.pick(["x", "y", "z", "p", "s"])) if self.coin(3, 4) else C(self.pick(["1.5", "2", "-3"]), "float")
                if r["k"] == "c":
                    r["t"] = "float" if "." in r["v"] else "int"
            if l["t"] != "float" and r["t"] != "float" and op != "/":
                r = P("x")
            return self.fix_bin(op, l, r, lambda: P("x"))

        def float_(self, d):
            if d <= 0:
                return P(self.pick(["x", "y", "z"]))
            w = self.ri(0, 99)
            if w < 6:
                return P(self.pick(["x", "y", "z"]))
            if w < 40:
                op = self.pick(["+", "-", "*"])
                l, r = self.num_operand(d - 1), self.num_operand(d - 1)
                if l["t"] != "float" and r["t"] != "float":
                    if self.coin():
                        l = self.float_(d - 1)
                    else:
                        r = self.float_(d - 1)
                return self.fix_bin(op, l, r, lambda: self.float_(d - 1))
            if w < 55:
                l = self.num_operand(d - 1)
                return self.fix_bin("/", l, self.nonzero_div(), lambda: P("z"))
            if w < 64:
                which = self.ri(0, 2)
                if which == 0:  # traced float base, small integral exponent
                    return self.fix_bin("**", P(self.pick(["x", "y"])), self.small_amount(), lambda: P("s"))
                if which == 1:  # constant float base, traced exponent (reflected)
                    return self.fix_bin("**", C(self.pick(["2.0", "0.5", "1.5"]), "float"), P(self.pick(["s", "x", "m"])),
                                        lambda: P("s"))
                return self.fix_bin("**", C(self.pick(["2", "3"]), "int"), P(self.pick(["x", "y"])), lambda: P("x"))
            if w < 71:
                return {"k": "un", "op": self.pick(["-", "+"]), "e": self.float_(d - 1), "t": "float"}
            if w < 75:  # (no abs() of a float: selene 0.4.3 has no `fabs`, toolchain gap)
                return {"k": "un", "op": "-", "e": self.float_(d - 1), "t": "float"}
            if w < 83:
                arg = self.int_(d - 1) if self.coin(2, 3) else self.nat_(d - 1)
                return CALL("float", [arg], "float")
            if w < 90:
                return self.access("float", d)
            which = self.ri(0, 2)
            if which == 0:
                x = self.num_operand(d - 1)
                if x["t"] != "float" and x["k"] not in ("p", "c", "bin", "un"):
                    # @guppy widens an int/nat *variable, constant or operator result* passed to a float parameter
                    # but rejects other int-valued argument expressions (call results, indexing, field access) with
                    # "Expected float, got int": not an operation common to both modes, so it is made explicit
                    x = CALL("float", [x], "float")
                return CALL("g_scale", [x, self.int_(d - 1, True)], "float")
            if which == 1:
                return CALL("g_getv", [self.struct_(d - 1)], "float")
            return {"k": "idx", "e": CALL("g_swap", [self.tup_if(d - 1)], "tuple[float, int]"), "i": 0, "t": "float"}

        def num_operand(self, d):
            w = self.ri(0, 9)
            if w < 2:
                return self.flt_const()
            if w < 3:
                return self.int_const()
            if w < 5:
                return self.int_(d)
            if w < 6:
                return self.nat_(min(d, 1))
            return self.float_(d)

        # ---- bool
        def bool_(self, d):
            if d <= 0:
                return P(self.pick(["c", "d"]))
            w = self.ri(0, 99)
            if w < 8:
                return P(self.pick(["c", "d"]))
            if w < 65:
                op = self.pick(["==", "!=", "<", "<=", ">", ">="])
                cls = self.ri(0, 2)
                if cls == 0:
                    l, r = self.int_operand(d - 1, "+"), self.int_operand(d - 1, "+")
                    mk = lambda: self.int_(d - 1)  # noqa: E731
                elif cls == 1:
                    l, r = self.num_operand(d - 1), self.num_operand(d - 1)
                    mk = lambda: self.float_(d - 1)  # noqa: E731
                else:
                    l = self.nat_(d - 1) if self.coin(2, 3) else self.nat_c()
                    r = self.nat_(d - 1) if self.coin(2, 3) else self.nat_c()
                    mk = lambda: P("n")  # noqa: E731
                return self.fix_bin(op, l, r, mk)
            if w < 82:
                op = self.pick(["&", "|", "^", "==", "!="])
                l = self.bool_(d - 1) if self.coin(2, 3) else C(self.pick(["True", "False"]), "bool")
                r = self.bool_(d - 1) if self.coin(2, 3) else C(self.pick(["True", "False"]), "bool")
                return self.fix_bin(op, l, r, lambda: P("c"))
            if w < 90:
                return CALL("bool", [self.int_(d - 1) if self.coin() else self.nat_(d - 1)], "bool")
            return CALL("g_isneg", [self.int_(d - 1, True)], "bool")

        # ---- containers
        def tup_if(self, d):
            if self.coin(1, 3):
                return P("t")
            return {"k": "tup", "es": [self.int_(d, True), self.float_(d) if self.coin(3, 4) else self.flt_const()],
                    "t": "tuple[int, float]"}

        def arr_int3(self, d):
            if self.coin(1, 3):
                return P("xs")
            es = [self.int_(d, True) for _ in range(3)]
            return {"k": "arr", "es": es, "t": "array[int, 3]"}

        def struct_(self, d):
            w = self.ri(0, 2)
            if w == 0:
                return P("st")
            args = [self.int_(d, True), self.float_(d) if self.coin(3, 4) else self.flt_const()]
            if w == 1:
                return {"k": "st", "es": args, "t": "S"}
            return CALL("g_mk", args, "S")

        def access(self, ty, d):
            """an int / float obtained from a tuple, array or struct"""
            w = self.ri(0, 3)
            if ty == "int":
                if w == 0:
                    return {"k": "idx", "e": self.tup_if(d - 1), "i": 0, "t": "int"}
                if w == 1:
                    return {"k": "idx", "e": P("xs"), "i": self.ri(0, 2), "t": "int"}
                if w == 2:
                    return {"k": "fld", "e": self.struct_(d - 1), "f": "u", "t": "int"}
                es = [self.int_(d - 1, True), self.bool_(d - 1), self.int_(d - 1, True)]
                i = self.pick([0, 2])
                return {"k": "idx", "e": {"k": "tup", "es": es, "t": "tuple[int, bool, int]"}, "i": i, "t": "int"}
            if w == 0:
                return {"k": "idx", "e": self.tup_if(d - 1), "i": 1, "t": "float"}
            if w == 1:
                return {"k": "idx", "e": P("fs"), "i": self.ri(0, 1), "t": "float"}
            return {"k": "fld", "e": self.struct_(d - 1), "f": "v", "t": "float"}

        def refl(self, d, cls=None, op=None):
            """Python constant as *left* operand of an operator applied to a traced value: every
            operator x operand-type class, the traced operand in the role the operator needs.
            (cls, op) drawn unless given (the enumerated part gives them)."""
            cls = cls or self.pick(["ii", "ii", "ii", "fi", "if", "ff", "in", "in", "bb"])
            if cls == "bb":
                op = op or self.pick(REFL_OPS["bb"])
                return self.fix_bin(op, C(self.pick(["True", "False"]), "bool"), self.bool_(d - 1), lambda: P("c"))
            if cls in ("ii", "in"):
                op = op or self.pick(REFL_OPS[cls])
                nat = cls == "in"
                if op in ("/", "//", "%"):
                    r = P("m") if nat else P("p")
                elif op in ("<<", ">>", "**"):
                    r = P("m") if nat else P("s")
                else:
                    r = self.nat_(d - 1) if nat else self.int_(d - 1)
                if op == "**":
                    l = C(self.pick(["2", "3", "-2", "1"]), "int")
                elif op in ("<<", ">>"):
                    l = C(self.pick(["1", "2", "5", "255", "-1", "-7", "2147483648"]), "int")
                else:
                    l = self.int_const()
                if op == ">>" and r["t"] == "int" and "reflected.rshift" in excl:
                    self.excluded.append("reflected.rshift")
                    op = "<<"
                return self.fix_bin(op, l, r, lambda: P("s"))
            # a float on at least one side: no bitwise ops / shifts, no // % (ffloor)
            op = op or self.pick(REFL_OPS[cls])
            l = self.flt_const() if cls[0] == "f" else self.int_const()
            if op == "/":
                r = P("z") if cls[1] == "f" else P("p")
            elif op == "**":
                l = C(self.pick(["2.0", "0.5", "1.5"]), "float") if cls[0] == "f" else C(self.pick(["2", "3"]), "int")
                r = P(self.pick(["x", "y"])) if cls[1] == "f" else P("s")
            else:
                r = self.float_(d - 1) if cls[1] == "f" else self.int_(d - 1)
            return self.fix_bin(op, l, r, lambda: P("x"))

        def top(self, d):
            if self.coin(3, 10):
                e = self.refl(d)
                if self.coin(1, 3) and e["t"] in RANK:  # put it into a context
                    e = self.fix_bin(self.pick(["+", "-", "*"]), e, P({"int": "a", "nat": "n", "float": "x"}[e["t"]]), None)
                return e
            w = self.ri(0, 99)
            if w < 34:
                return self.int_(d)
            if w < 52:
                return self.float_(d)
            if w < 66:
                return self.bool_(d)
            if w < 74:
                return self.nat_(d)
            if w < 82:
                es = [self.int_(d - 1), self.float_(d - 1)] if self.coin() else [self.bool_(d - 1), self.int_(d - 1)]
                if self.coin(1, 4):
                    es[0] = C("7", "int") if es[0]["t"] == "int" else C("True", "bool")
                return {"k": "tup", "es": es, "t": f"tuple[{es[0]['t']}, {es[1]['t']}]"}
            if w < 86:
                return CALL("g_swap", [self.tup_if(d - 1)], "tuple[float, int]")
            if w < 93:
                if self.coin():
                    # (never the borrowed parameter `xs` itself: returning it is an ownership error in @guppy)
                    return {"k": "arr", "es": [self.int_(d - 1), C("4", "int") if self.coin() else self.int_(d - 1, True),
                                               self.int_(d - 1)], "t": "array[int, 3]"}
                es = [self.float_(d - 1), self.float_(d - 1)]
                return {"k": "arr", "es": es, "t": "array[float, 2]"}
            s = self.struct_(d - 1)
            return s if s["k"] != "p" else {"k": "st", "es": [self.int_(d - 1), self.float_(d - 1)], "t": "S"}

    def lit_float(v):
        return repr(float(v))

    def gen_input(rnd, cls):
        def i():
            w = rnd.randrange(4)
            if w < 2:
                return rnd.randint(-20, 20)
            if w == 2:
                return rnd.randint(-10**6, 10**6)
            return rnd.choice([0, 1, -1, 2**31, -2**31, 2**62, -2**62, 2**63 - 1, -(2**63 - 1)])

        def f():
            w = rnd.randrange(3)
            if w == 0:
                return rnd.choice([0.0, 1.0, -1.0, 0.5, 2.0, -0.0, 100.0, -99.5])
            if w == 1:
                return float(rnd.randint(-50, 50))
            return rnd.uniform(-100, 100)

        if cls == "int":
            return str(i())
        if cls == "pos":
            return str(rnd.randint(1, 50))
        if cls == "small":
            return str(rnd.randint(0, 6))
        if cls == "nat":
            return str(rnd.randint(0, 20) if rnd.randrange(3) else rnd.randint(0, 10**4))
        if cls == "small_pos":
            return str(rnd.randint(1, 6))
        if cls == "float":
            return lit_float(f())
        if cls == "nonzero":
            v = rnd.choice([1.0, -1.0, 0.5, -2.0, 4.0]) if rnd.randrange(3) == 0 else rnd.uniform(0.5, 100) * rnd.choice([1, -1])
            return lit_float(v)
        if cls == "bool":
            return str(rnd.random() < 0.5)
        if cls == "tup":
            return f"({i()}, {lit_float(f())})"
        if cls == "arr3":
            return f"array({i()}, {i()}, {i()})"
        if cls == "farr2":
            return f"array({lit_float(f())}, {lit_float(f())})"
        if cls == "struct":
            return f"S({i()}, {lit_float(f())})"
        raise ValueError(cls)

    @st.composite
    def case(draw):
        rnd = draw(st.randoms(use_true_random=True))
        g = G(rnd)
        d = g.pick([1, 2, 2, 3])
        e = g.top(d)
        if not params_of(e):  # a body without traced values says nothing
            e = {"k": "bin", "op": "+", "l": e, "r": P("a"), "t": "int"} if e["t"] == "int" else g.int_(1)
        ni = g.ri(2, 3)
        inputs = [{p: gen_input(rnd, PARAMS[p][1]) for p in params_of(e)} for _ in range(ni)]
        return {"expr": e, "inputs": inputs, "excluded": g.excluded}

    @st.composite
    def enumerated(draw):
        """this shard's slice of ALL reflected forms (constant OP traced leaf), two constants each"""
        rnd = draw(st.randoms(use_true_random=True))
        out = []
        for idx, (cls, op) in enumerate(REFL_COMBOS):
            if idx % nshards != shard % nshards:
                continue
            for _rep in range(2):
                g = G(rnd)
                e = g.refl(1, cls, op)
                ni = g.ri(2, 3)
                out.append({"expr": e, "inputs": [{p: gen_input(rnd, PARAMS[p][1]) for p in params_of(e)} for _ in range(ni)],
                            "excluded": g.excluded})
        return out

    @st.composite
    def equal_constants(draw):
        """this shard's slice of ALL ordered pairs of equal-in-Python constants, two bodies each"""
        rnd = draw(st.randoms(use_true_random=True))
        out = []
        for idx, (c1, c2) in enumerate(EQ_PAIRS):
            if idx % nshards != shard % nshards:
                continue
            for _rep in range(2):
                g = G(rnd)
                e = g.eq_pair(c1, c2)
                ni = g.ri(2, 3)
                out.append({"expr": e, "inputs": [{p: gen_input(rnd, PARAMS[p][1]) for p in params_of(e)} for _ in range(ni)],
                            "excluded": g.excluded})
        return out

    return case(), enumerated(), equal_constants()


def labels_of(case, r):
    e = case["expr"]
    labs = ["status:" + r["status"], "ret:" + e["t"].split("[")[0]]
    for f in features(e):
        labs.append("f:" + f)
    if has_reflected(e):
        labs.append("has:reflected")
    if has_equal_constants(e):
        labs.append("has:equal_constants")
    return labs


def worker(ctx):
    from hypothesis import strategies as st

    excl = active_exclusions()
    ctx.notes["active_exclusions"] = sorted(excl)
    one, enum, eqc = strategies(excl, ctx.shard, ctx.nshards)
    B = ctx.params["batch"]
    found = {}  # preliminary bucket -> (case, r)
    tot = {"n": 0, "both_reject": 0}

    def body(cases):
        rs = run_cases(cases)
        for case, r in zip(cases, rs):
            tot["n"] += 1
            for why in case.get("excluded", ()):
                ctx.exclude(why)
            nontriv = has_reflected(case["expr"]) and r["status"] == "agree"
            ctx.case({"e": render(case["expr"]), "t": case["expr"]["t"], "i": case["inputs"]}, nontriv,
                     labels=labels_of(case, r),
                     sample={"body": render(case["expr"]), "ret": case["expr"]["t"], "inputs": case["inputs"],
                             "values@guppy=comptime": r.get("values")} if nontriv else None)
            if r["status"] in ("mismatch", "onesided"):
                key = r["status"] + ":" + "+".join(f for f in features(case["expr"]))[:200]
                cur = found.get(key)
                if cur is None or size(case["expr"]) < size(cur[0]["expr"]):
                    found[key] = (case, r)
            elif r["status"] == "both_reject":
                tot["both_reject"] += 1
                ctx.label("both_reject")
                ctx.sample("both_reject", {"body": render(case["expr"]), "ret": case["expr"]["t"], "why": r["detail"]})
            elif r["status"] == "unsupported":
                ctx.unsupported_case(r["detail"][:100])
            elif r["status"] == "panic":
                ctx.label("both_panic_alike")
                ctx.sample("both_panic_alike", {"body": render(case["expr"]), "inputs": case["inputs"], "why": r["detail"]})
            elif r["status"] == "skipped":
                ctx.label("skipped")
            elif r["status"] == "generr":
                ctx.harness_error(r["detail"] + "\n" + describe(case))

    # one case per Hypothesis example (a list of B cases in one example overruns Hypothesis' entropy
    # buffer and the later cases degenerate to minimal draws); B examples are evaluated together
    pending = []

    def collect(case):
        pending.append(case)
        if len(pending) >= B:
            batch = list(pending)
            del pending[:]
            body(batch)

    # systematic part: every reflected operator x operand class (split over the shards), then random search
    harness.hyp_search(ctx, enum, lambda cs: [collect(c) for c in cs], max_examples=1, chunk=1, time_frac=0.55, extra_seed=7)
    harness.hyp_search(ctx, eqc, lambda cs: [collect(c) for c in cs], max_examples=1, chunk=1, time_frac=0.55, extra_seed=11)
    harness.hyp_search(ctx, one, collect, max_examples=ctx.params["n"] * B, chunk=B * 2, time_frac=0.55)
    if pending and not ctx.out_of_time(0.55):
        body(list(pending))
    if tot["n"] >= 60 and tot["both_reject"] > 0.03 * tot["n"]:
        ctx.harness_error(f"{tot['both_reject']}/{tot['n']} generated bodies were rejected by both modes "
                          f"(generator leaves the common fragment)")
    # ---- stage 2: statement-sequence bodies over containers and borrowing calls (vlib/c21_bodies.py)
    from vlib import c21_bodies as CB

    X = CB.ALIAS_KEY in excl
    pend2 = []
    seen2 = {}

    def body2(cases):
        vs, stt = CB.run_cases(cases, exclude_alias=X)
        if stt != "ok":
            ctx.harness_error(f"stage 2: {stt}")
            return
        for c, v in zip(cases, vs):
            if CB.alias_class(c) and X:
                ctx.exclude("borrowed_tuple_alias: bare-variable element of a lent tuple written as `(x + 0)`")
            if v == "unsupported":
                ctx.unsupported_case("selene could not build/run the program")
                continue
            if v == "outside":
                tot["n2_out"] = tot.get("n2_out", 0) + 1
                ctx.label("B:both_reject")
                ctx.sample("B:both_reject", {"body": CB.render_body(c, X)})
                continue
            tot["n2"] = tot.get("n2", 0) + 1
            nt = CB.nontrivial(c) and v is None
            ctx.case(["B", c["stmts"], c["inputs"]], nt, labels=["B"] + CB.labels(c),
                     sample={"stage2_body": CB.render_body(c, X), "inputs": c["inputs"]} if nt else None)
            if isinstance(v, tuple):
                cur = seen2.get(v[0])
                if cur is None or len(c["stmts"]) < len(cur[0]["stmts"]):
                    seen2[v[0]] = (c, v)

    def collect2(c):
        pend2.append(c)
        if len(pend2) >= ctx.params["batch2"]:
            b = list(pend2)
            del pend2[:]
            body2(b)

    harness.hyp_search(ctx, CB.bodies(), collect2, max_examples=ctx.params["n2"] * ctx.params["batch2"],
                       chunk=ctx.params["batch2"] * 2, time_frac=0.85, extra_seed=13)
    if pend2 and not ctx.out_of_time(0.85):
        body2(list(pend2))
    if tot.get("n2_out", 0) > 0.03 * max(30, tot.get("n2", 0)):
        ctx.harness_error(f"stage 2: {tot['n2_out']} bodies rejected by both modes (generator leaves the common fragment)")
    for b, (c, v) in sorted(seen2.items()):
        # minimise: drop statements while the bucket stays
        cur = c
        changed = True
        while changed and not ctx.out_of_time(0.93):
            changed = False
            for k in range(len(cur["stmts"])):
                cand = dict(cur, stmts=cur["stmts"][:k] + cur["stmts"][k + 1:])
                vs, stt = CB.run_cases([cand], exclude_alias=X)
                if stt == "ok" and isinstance(vs[0], tuple) and vs[0][0] == b:
                    cur, v, changed = cand, vs[0], True
                    break
        ctx.violation(b, {"body": cur, "exclude_alias": X}, v[1])

    # localise: smallest disagreeing subexpression names the root cause; small cases first
    done = set()
    for key, (case, r) in sorted(found.items(), key=lambda kv: size(kv[1][0]["expr"])):
        feats = set(features(case["expr"]))
        if any(st_ == r["status"] and f in feats for st_, f in done):
            ctx.label("not_localised:contains_an_already_localised_feature")
            continue  # most likely the same root cause inside a larger body
        if ctx.out_of_time(0.93):
            feat, small, rr = feature(case["expr"]), case, r
            ctx.label("not_localised:out_of_time")
        else:
            feat, small, rr = localise(case, r)
        done.add((r["status"], feat))
        b = bucket_of(rr, feat, small["expr"])
        small = {"expr": small["expr"], "inputs": small["inputs"]}
        ctx.violation(b, small, rr["detail"] + "\n" + describe(small))


SPEC = harness.Spec(
    PROP, worker, replay,
    rule=("a case = one typed expression tree of depth 1-3 (int / nat / float / bool / tuple / array / struct valued) over 15 traced "
          "parameters and Python constants, built from + - * / // % ** << >> & | ^, six comparisons, unary - + ~, int float bool abs "
          "len nat, tuple / array / struct construction, constant indexing, field access and 9 @guppy helper calls, every operator "
          "with >= 1 traced operand, plus 2-3 input tuples (boundary-biased ints up to +-2^63-1, floats in [-100, 100], divisors "
          "non-zero, shift amounts / exponents 0..6); the same body text is compiled under @guppy and @guppy.comptime and both are "
          "run from one main (B cases per emulated program); each run starts with the enumeration of all 74 reflected forms constant-OP-traced "
          "(x2 constants, split over the shards) and of all 22 ordered pairs of constants that are equal in Python but distinct in "
          "Guppy (0/0.0/-0.0/False, 1/1.0/True, 2/2.0, -1/-1.0; x2 bodies using both, results side by side in a tuple/array/struct); "
          "random float constants include -0.0 and repeat / sign-flip an earlier zero of the body 1 time in 3. non-trivial = case accepted by both modes with equal streams whose body "
          "has a Python constant as *left* operand of an operator applied to a traced value; distinct = distinct (body, type, inputs). "
          "Stage 2: straight-line bodies of 2-7 statements over non-copyable structs (array + int + tuple fields), a nested struct, a "
          "local array and a tuple holding an array: borrowing calls that mutate or replace the value (mem_swap in the callee or the "
          "body), reads of fields / elements / tuple components / plain variables afterwards, element assignment, tuple unpacking, "
          "consume-and-rebind; same text under both decorators, 12 bodies x 2 inputs per emulated program; non-trivial there = a "
          "mutating borrow followed by a read, both modes agreeing"),
    assumptions=["operations the generator uses are the ones the statement lists as common to both modes (pinned on the unchanged tree): "
                 "a one-sided rejection is reported as availability.* instead of being dropped as out of domain",
                 "constant-only operator applications are not generated (CPython would evaluate them in comptime mode: that compares "
                 "Guppy arithmetic with Python arithmetic, which is C04)",
                 "selene 0.4.3 executes the lowered copy of the package (compat bridge, DESIGN.md 1.2); runtime float // % not generated (no ffloor)"],
    shards={"quick": 16, "thorough": 16},
    budget_s={"quick": 110, "thorough": 1000},
    params={"quick": {"n": 6, "batch": 24, "n2": 3, "batch2": 12}, "thorough": {"n": 60, "batch": 30, "n2": 40, "batch2": 12}},
    min_nontrivial=60,
)

if __name__ == "__main__":
    harness.main(SPEC)
