"""C25 Modifier blocks lower to the matching modifier operations.

Domain.  One `@guppy` function
    main(q0..q5: qubit, cs: array[qubit,2], ds: array[qubit,3], es: array[qubit,2], n: nat, m: nat, x: float,
         ks: array[nat,2], fs: array[float,2])
whose straight-line body mixes calls of declared unitary gates
    u(q) v(q) w(q,r) rn(q, k: nat) rf(q, x: float) a2(qs: array[qubit,2]) a3(qs: array[qubit,3])
    rk(q, ks) rnk(q, k: nat, ks) rkf(q, fs, x: float) rkk(q, fs, ks)       (ks / fs: classical arrays)
with 1-2 `with` stacks.  A stack carries 1-4 modifiers in total, split over 1-3 nested `with`
statements (comma form inside one statement, e.g. `with control(q0), dagger:` / nested blocks /
both); modifiers are `dagger`, `dagger()`, `control(q..)` with 1-3 qubits, `control(array)`,
`power(<literal>)`, `power(n|m)`; repetitions allowed.  Bodies call the gates on captured qubits,
captured arrays and captured classical values (nat / float variables and literals; whole classical
arrays, which are affine - neither copyable nor linear - and so are threaded through and handed back
like qubits; they are mixed with copyable captures in either order of use), may contain
further calls before / after a nested block, and the enclosing code applies gates to the control
qubits, control arrays and captured values after the block.  Programs are built so that the
checker accepts them (controls pairwise distinct and not used in the body).

Oracle (structural predicate on the compiled HUGR, written from the property statement).  Both the
source program and the HUGR are evaluated symbolically to *terms* over main's parameters:
    call(g, args, i)            i-th borrowed output of gate call g(args)
    arr(t..) / elem(t, i)       array packing / unpacking of control qubits
    wctrl(B, j) / wcap(B, t)    what a with-block B hands back: its j-th control register /
                                a captured linear value whose value at the end of the body is t
    B = (chain, controls, {captured input -> value at the end of the body})
    chain = (#dagger mod 2, exponent terms in source order, control arities in source order)
On the HUGR side Input ports are resolved through the CFG / through the unique CallIndirect of a
`__WithBlock__` FuncDefn, so the terms do not depend on how the compiler orders captured variables.
Checked, per program, after `hugr validate`:
  1 one `__WithBlock__` FuncDefn per `with` statement, each loaded by exactly one LoadFunc whose
    value reaches exactly one CallIndirect through a linear chain of tket.modifier ops only;
  2 the number of Call nodes inside each FuncDefn equals the number of gate calls written there;
  3 for every `with` statement there is a CallIndirect whose chain reads: DaggerModifier count ==
    #dagger mod 2 (the unchanged compiler groups kinds and cancels dagger pairs; kinds commute and
    dagger is an involution), PowerModifiers == power modifiers in source order with the exponent
    wire resolving to the written literal / variable, ControlModifiers == control modifiers in source
    order with the written arities; its first k inputs are the control registers (arrays built
    from exactly the written qubits / the written array; the port order of the registers is left
    open, in/out positions must agree), the remaining linear inputs the captured values, and the
    values at the end of its FuncDefn are the body's calls applied in order;
  4 the final value of every qubit / array parameter of main (its implicit outputs) equals the
    term the source evaluates to - i.e. later uses read the block's outputs, not pre-block wires.

Buckets: invalid_hugr.<class> (modifier_signature = a modifier op whose type arguments do not describe the
function it wraps) / rejected.<title> / crash.<sig> / funcdefn.count / funcdefn.calls /
chain.shape / chain.dagger / chain.power_exponent / chain.control_arity / chain.order /
block.controls / block.body / writeback.control / writeback.captured / dataflow.other.
"""
import os
import sys

sys.path.insert(0, os.path.dirname(os.path.dirname(os.path.abspath(__file__))))
from vlib import harness  # noqa: E402

PROP = "C25"

#: Finding of this check: one `with` statement carrying >= 2 control modifiers whose registers
#: have different sizes (`with control(a), control(b, c):`) compiles to a HUGR that fails
#: validation: every ControlModifier prepends its register to the function type (last modifier
#: first), but compile_modified_block passes the registers to CallIndirect in source order.
H_CTRL = "invalid_hugr.multi_control_register_order"
#: Classes left out by construction.  Active when known_findings.json lists the key for C25 or when
#: forced by VERIF_C25_EXCLUDE=all|<key,..>.
EXCLUDE = {H_CTRL: "one with statement with two or more control modifiers of different register sizes"}

PROBES = {
    H_CTRL: {"items": [{"k": "with", "mods": [["control", ["q0"]], ["control", ["q1", "q2"]]],
                        "body": [{"k": "call", "g": "u", "args": ["q3"]}]}]},
}

QUBITS = [f"q{i}" for i in range(6)]
ARRAYS = {"cs": 2, "ds": 3, "es": 2}
NATS = ["n", "m"]
FLOATS = ["x"]
#: classical arrays: affine values (not copyable, droppable) - borrowed by main, captured by with bodies,
#: handed to gates as whole (borrowed) arguments, never used as controls
CARRAYS = {"ks": "kn", "fs": "kf"}
PARAMS = QUBITS + list(ARRAYS) + NATS + FLOATS + list(CARRAYS)
#: gate -> parameter kinds (q qubit, a2/a3 arrays of qubits, n nat, f float, kn/kf classical arrays)
GATES = {"u": ["q"], "v": ["q"], "w": ["q", "q"], "rn": ["q", "n"], "rf": ["q", "f"], "a2": ["a2"], "a3": ["a3"],
         "rk": ["q", "kn"], "rnk": ["q", "n", "kn"], "rkf": ["q", "kf", "f"], "rkk": ["q", "kf", "kn"]}
GATE_SIG = {"q": "qubit", "n": "nat", "f": "float", "a2": "array[qubit, 2]", "a3": "array[qubit, 3]",
            "kn": "array[nat, 2]", "kf": "array[float, 2]"}


def active_exclusions():
    env = os.environ.get("VERIF_C25_EXCLUDE", "")
    act = set()
    if env:
        act |= set(EXCLUDE) if env == "all" else {k for k in env.split(",") if k in EXCLUDE}
    try:
        known, _ = harness.load_known(PROP)
        act |= {k["key"] for k in known if k.get("key") in EXCLUDE}
    except Exception:  # noqa: BLE001
        pass
    return act


# =============================================================================== source side
def mod_kind(m):
    return "dagger" if m[0].startswith("dagger") else "control" if m[0].startswith("control") else "power"


def ctrl_size(m):
    return len(m[1]) if m[0] == "control" else ARRAYS[m[1]]


def is_linear(name):
    """not copyable: handed back by every function that borrows it (qubits, arrays of qubits, classical arrays)"""
    return name in QUBITS or name in ARRAYS or name in CARRAYS


def walk_withs(items, out=None, depth=0):
    out = [] if out is None else out
    for it in items:
        if it["k"] == "with":
            out.append((it, depth))
            walk_withs(it["body"], out, depth + 1)
    return out


def has_class(case, key):
    if key == H_CTRL:
        for w, _ in walk_withs(case["items"]):
            sizes = [ctrl_size(m) for m in w["mods"] if m[0] in ("control", "controla")]
            if len(set(sizes)) > 1:
                return True
    return False


def arg_term(a, env):
    if isinstance(a, str):
        return env[a]
    if a[0] == "lit":
        return ("const", a[1])
    return env[a[1]]


def canon_controls(terms):
    """registers in a canonical order (the compiler may order the ports either way) + for each
    given position its rank"""
    order = sorted(range(len(terms)), key=lambda i: repr(terms[i]))
    rank = {i: r for r, i in enumerate(order)}
    return tuple(terms[i] for i in order), rank


class Expect:
    """symbolic evaluation of the source; records one entry per with statement"""

    def __init__(self):
        self.blocks = []  # dicts: key, chain, ncalls, role of variables
        self.last_role = {}  # linear variable -> (role, block index) of the last block touching it

    def run(self, case):
        env = {p: ("p", p) for p in PARAMS}
        ncalls = self.items(case["items"], env)
        return env, ncalls

    def items(self, items, env, depth=0):
        ncalls = 0
        for it in items:
            if it["k"] == "call":
                ncalls += 1
                args = tuple(arg_term(a, env) for a in it["args"])
                k = 0
                for a in it["args"]:
                    if isinstance(a, str) and is_linear(a):
                        env[a] = ("call", it["g"], args, k)
                        k += 1
            else:
                self.with_block(it, env, depth)
        return ncalls

    def with_block(self, w, env, depth=0):
        mods = w["mods"]
        dag = sum(1 for m in mods if mod_kind(m) == "dagger") % 2
        exps = tuple(arg_term(m[1], env) for m in mods if m[0] == "power")
        ctrls = [m for m in mods if m[0] in ("control", "controla")]
        arities = tuple(ctrl_size(m) for m in ctrls)
        chain = (dag, exps, arities)
        cin = []
        for m in ctrls:
            cin.append(("arr", tuple(env[q] for q in m[1])) if m[0] == "control" else env[m[1]])
        benv = dict(env)
        rec = {"chain": chain, "mods": mods, "w": w, "depth": depth}
        ncalls = self.items(w["body"], benv, depth + 1)
        # completion order: blocks nested in the body come first, so the innermost mismatch is reported
        idx = len(self.blocks)
        self.blocks.append(rec)
        changed = [v for v in PARAMS if is_linear(v) and benv[v] != env[v]]
        ccanon, rank = canon_controls(cin)
        key = ("blk", chain, ccanon, frozenset((env[v], benv[v]) for v in changed))
        rec.update(key=key, ncalls=ncalls, controls=ccanon, captured=changed,
                   lin_inputs=frozenset(list(cin) + [env[v] for v in changed]))
        for j, m in enumerate(ctrls):
            reg = ("wctrl", key, rank[j])
            if m[0] == "control":
                for i, q in enumerate(m[1]):
                    env[q] = ("elem", reg, i)
                    self.last_role[q] = ("control", idx)
            else:
                env[m[1]] = reg
                self.last_role[m[1]] = ("control", idx)
        for v in changed:
            env[v] = ("wcap", key, benv[v])
            self.last_role[v] = ("captured", idx)


# =============================================================================== HUGR side
class Malformed(Exception):
    """the HUGR does not have the shape the property demands; .bucket names what is off"""

    def __init__(self, bucket, msg):
        super().__init__(msg)
        self.bucket = bucket


MODIFIER_OPS = {"DaggerModifier": "dagger", "PowerModifier": "power", "ControlModifier": "control"}


class HugrTerms:
    def __init__(self, h):
        from hugr import ops

        self.h, self.ops = h, ops
        self.memo = {}
        self.callsite = {}  # with FuncDefn node -> (CallIndirect node, chain ops [(kind, node)], k)
        self.blocks = {}  # CallIndirect node -> record
        self.funcs = {}  # name -> FuncDefn node
        for n in h:
            op = h[n].op
            if isinstance(op, ops.FuncDefn):
                self.funcs[op.f_name] = n
        self.find_callsites()

    # ---- graph helpers
    def src(self, node, i):
        ps = list(self.h.linked_ports(node.inp(i)))
        if len(ps) != 1:
            raise Malformed("dataflow.other", f"input port {i} of {self.name(node)} has {len(ps)} sources")
        return ps[0]

    def consumers(self, node, i):
        return list(self.h.linked_ports(node.out(i)))

    def opname(self, node):
        op = self.h[node].op
        if isinstance(op, self.ops.ExtOp):
            return op.op_def().name
        if isinstance(op, self.ops.Custom):
            return op.op_name
        return None

    def name(self, node):
        op = self.h[node].op
        return f"{type(op).__name__}:{self.opname(node) or getattr(op, 'f_name', '')}#{node.idx}"

    def enclosing_func(self, node):
        while node is not None and not isinstance(self.h[node].op, self.ops.FuncDefn):
            node = self.h[node].parent
        return node

    def descendants(self, node):
        out, todo = [], [node]
        while todo:
            x = todo.pop()
            for c in self.h.children(x):
                out.append(c)
                todo.append(c)
        return out

    # ---- with-block call sites
    def with_funcs(self):
        return {nm: n for nm, n in self.funcs.items() if nm.startswith("__WithBlock__")}

    def find_callsites(self):
        h, ops = self.h, self.ops
        for nm, f in self.with_funcs().items():
            loads = [p.node for p in self.consumers(f, 0)]
            if len(loads) != 1 or not isinstance(h[loads[0]].op, ops.LoadFunc):
                raise Malformed("chain.shape", f"{nm} is referenced by {[self.name(x) for x in loads]}, expected one LoadFunc")
            cur, chain = loads[0], []
            while True:
                cons = self.consumers(cur, 0)
                if len(cons) != 1:
                    raise Malformed("chain.shape", f"function value of {self.name(cur)} has {len(cons)} consumers")
                nxt, port = cons[0].node, cons[0].offset
                if port != 0:
                    raise Malformed("chain.shape", f"function value of {self.name(cur)} enters port {port} of {self.name(nxt)}")
                if isinstance(h[nxt].op, ops.CallIndirect):
                    break
                kind = MODIFIER_OPS.get(self.opname(nxt))
                if kind is None:
                    raise Malformed("chain.shape", f"{self.name(nxt)} sits between LoadFunc and CallIndirect of {nm}")
                chain.append((kind, nxt))
                cur = nxt
            k = sum(1 for kind, _ in chain if kind == "control")
            self.callsite[f] = (nxt, chain, k)

    # ---- terms
    def term(self, port):
        key = (port.node.idx, port.offset)
        if key not in self.memo:
            self.memo[key] = self._term(port.node, port.offset)
        return self.memo[key]

    def const_value(self, node):
        v = self.h[node].op.val
        for attr in ("v", "value"):
            if hasattr(v, attr):
                return getattr(v, attr)
        return repr(v)

    def _term(self, node, off):
        h, ops = self.h, self.ops
        op = h[node].op
        if isinstance(op, ops.Input):
            par = h[node].parent
            pop = h[par].op
            if isinstance(pop, ops.DataflowBlock):
                cfg = h[par].parent
                if h.children(cfg)[0] != par:
                    raise Malformed("dataflow.other", "straight-line program compiled to more than one basic block")
                return self.term(self.src(cfg, off))
            if isinstance(pop, ops.FuncDefn):
                if pop.f_name == "main":
                    return ("p", PARAMS[off])
                if par in self.callsite:
                    ci, _, k = self.callsite[par]
                    return self.term(self.src(ci, 1 + k + off))
            raise Malformed("dataflow.other", f"value comes from an Input of {self.name(par)}")
        if isinstance(op, ops.Call):
            nin = h.num_in_ports(node)
            callee, args = None, []
            for i in range(nin):
                ps = list(h.linked_ports(node.inp(i)))
                if ps and isinstance(h[ps[0].node].op, (ops.FuncDecl, ops.FuncDefn)):
                    callee = h[ps[0].node].op.f_name
                elif ps:
                    args.append(self.term(ps[0]))
            return ("call", callee, tuple(args), off)
        if isinstance(op, ops.LoadConst):
            return ("const", self.const_value(self.src(node, 0).node))
        if isinstance(op, ops.CFG):
            blocks = [c for c in h.children(node) if isinstance(h[c].op, ops.DataflowBlock)]
            if len(blocks) != 1:
                raise Malformed("dataflow.other", "straight-line program compiled to more than one basic block")
            outn = [c for c in h.children(blocks[0]) if isinstance(h[c].op, ops.Output)][0]
            if h.num_in_ports(outn) != 1 + h.num_out_ports(node):
                raise Malformed("dataflow.other", "unexpected block output row")
            return self.term(self.src(outn, 1 + off))
        if isinstance(op, ops.CallIndirect):
            rec = self.block(node)
            if off < rec["k"]:
                return ("wctrl", rec["key"], rec["rank"][off])
            return ("wcap", rec["key"], rec["body_out"][off - rec["k"]])
        nm = self.opname(node)
        if nm == "new_array":
            return ("arr", tuple(self.term(self.src(node, i)) for i in range(h.num_in_ports(node))))
        if nm in ("to_array", "from_array"):  # borrow_array <-> array conversions around the call
            return self.term(self.src(node, 0))
        if nm == "unpack":
            t = self.term(self.src(node, 0))
            if t[0] == "arr" and off < len(t[1]):
                return t[1][off]
            return ("elem", t, off)
        ins = tuple(self.term(p) for i in range(h.num_in_ports(node)) for p in h.linked_ports(node.inp(i)))
        return ("op", nm or type(op).__name__, ins, off)

    def is_linear_port(self, node, i):
        """does input port i of a CallIndirect carry a qubit / array of qubits (not a classical capture)"""
        t = self.term(self.src(node, i))
        return not (t[0] == "const" or (t[0] == "p" and not is_linear(t[1])))

    def block(self, ci):
        if ci in self.blocks:
            return self.blocks[ci]
        h = self.h
        f = None
        for fn, (c, chain, k) in self.callsite.items():
            if c == ci:
                f, fchain, fk = fn, chain, k
        if f is None:
            raise Malformed("chain.shape", f"{self.name(ci)} does not call a with-block function")
        dag = sum(1 for kind, _ in fchain if kind == "dagger")
        exps, arities, order = [], [], []
        for kind, n in fchain:
            order.append(kind)
            if kind == "power":
                exps.append(self.term(self.src(n, 1)))
            elif kind == "control":
                a = h[n].op.args[0]
                arities.append(getattr(a, "n", None))
        nin = h.num_in_ports(ci)
        cin = [self.term(self.src(ci, 1 + j)) for j in range(fk)]
        ccanon, rank = canon_controls(cin)
        # body: outputs of the FuncDefn (resolved through this call site)
        outn = [c for c in h.children(f) if isinstance(h[c].op, self.ops.Output)][0]
        body_out = [self.term(self.src(outn, r)) for r in range(h.num_in_ports(outn))]
        lin_in = [self.term(self.src(ci, i)) for i in range(1 + fk, nin) if self.is_linear_port(ci, i)]
        if len(lin_in) != len(body_out):
            raise Malformed("block.body", f"{self.name(f)} takes {len(lin_in)} linear captures but returns {len(body_out)} values")
        if h.num_out_ports(ci) != fk + len(body_out):
            raise Malformed("block.body", f"{self.name(ci)} has {h.num_out_ports(ci)} outputs, expected {fk}+{len(body_out)}")
        pairs = frozenset((a, b) for a, b in zip(lin_in, body_out) if a != b)
        untouched = [a for a, b in zip(lin_in, body_out) if a == b]
        chain = (dag % 2, tuple(exps), tuple(arities))
        depth, g = 0, self.enclosing_func(ci)
        while g in self.callsite:  # number of with-block functions around this call
            depth += 1
            g = self.enclosing_func(self.callsite[g][0])
        rec = {"f": f, "ci": ci, "k": fk, "depth": depth, "dag_ops": dag, "order": order, "chain": chain, "controls": ccanon,
               "rank": rank, "body_out": body_out, "untouched": untouched,
               "key": ("blk", chain, ccanon, pairs), "lin_inputs": frozenset(cin + lin_in),
               "ncalls": sum(1 for d in self.descendants(f) if isinstance(h[d].op, self.ops.Call))}
        self.blocks[ci] = rec
        return rec


# =============================================================================== rendering
def render_mod(m):
    if m[0] == "dagger":
        return "dagger"
    if m[0] == "dagger()":
        return "dagger()"
    if m[0] == "control":
        return "control(" + ", ".join(m[1]) + ")"
    if m[0] == "controla":
        return f"control({m[1]})"
    a = m[1]
    return f"power({a[1]})"


def render_arg(a):
    return a if isinstance(a, str) else str(a[1])


def render_items(items, ind, out):
    for it in items:
        if it["k"] == "call":
            out.append(ind + f"{it['g']}(" + ", ".join(render_arg(a) for a in it["args"]) + ")")
        else:
            out.append(ind + "with " + ", ".join(render_mod(m) for m in it["mods"]) + ":")
            render_items(it["body"], ind + "    ", out)
    return out


def render(case):
    from vlib import runner

    decls = "".join(
        f"@guppy.declare(unitary=True)\ndef {g}(" + ", ".join(f"a{i}: {GATE_SIG[k]}" for i, k in enumerate(ks))
        + ") -> None: ...\n" for g, ks in GATES.items())
    sig = ", ".join([f"{q}: qubit" for q in QUBITS] + [f"{a}: array[qubit, {n}]" for a, n in ARRAYS.items()]
                    + [f"{n}: nat" for n in NATS] + [f"{x}: float" for x in FLOATS]
                    + [f"{c}: {GATE_SIG[k]}" for c, k in CARRAYS.items()])
    body = render_items(case["items"], "    ", [])
    return runner.PRELUDE + "\n" + decls + f"\n@guppy\ndef main({sig}) -> None:\n" + "\n".join(body) + "\n"


# =============================================================================== evaluation
_enabled = [False]


def _enable():
    if not _enabled[0]:
        from guppylang_internals.experimental import enable_experimental_features

        enable_experimental_features()
        _enabled[0] = True


def short(t, depth=0):
    """readable rendering of a term"""
    if not isinstance(t, tuple):
        return repr(t)
    if t[0] == "p":
        return t[1]
    if t[0] == "const":
        return str(t[1])
    if t[0] == "call":
        return f"{t[1]}({', '.join(short(a, depth + 1) for a in t[2])}).{t[3]}"
    if t[0] == "arr":
        return "[" + ", ".join(short(a, depth + 1) for a in t[1]) + "]"
    if t[0] == "elem":
        return f"{short(t[1], depth + 1)}[{t[2]}]"
    if t[0] == "blk":
        body = "; ".join(sorted(f"{short(a, depth + 1)}=>{short(b, depth + 1)}" for a, b in t[3]))
        return f"WITH<dagger={t[1][0]} powers=({', '.join(short(e) for e in t[1][1])}) ctrl={list(t[1][2])}>" \
               f"(controls {', '.join(short(c, depth + 1) for c in t[2])} | {body})"
    if t[0] == "wctrl":
        return f"{short(t[1], depth + 1)}.ctrl{t[2]}"
    if t[0] == "wcap":
        return f"{short(t[1], depth + 1)}.out[{short(t[2], depth + 1)}]"
    return repr(t)


def compare(case, pkg):
    """structural oracle -> list of (bucket, detail)"""
    exp = Expect()
    env, main_calls = exp.run(case)
    h = pkg.modules[0]
    withs = walk_withs(case["items"])
    try:
        ht = HugrTerms(h)
        nwf = len(ht.with_funcs())
        if nwf != len(withs) or "main" not in ht.funcs or len(ht.funcs) != nwf + 1:
            return [("funcdefn.count", f"{len(withs)} with statements but FuncDefns {sorted(ht.funcs)}")]
        recs = [ht.block(ci) for ci, _, _ in ht.callsite.values()]
        # match every with statement (earlier before later, inner before the block around it)
        unused = list(recs)
        for b in exp.blocks:
            # blocks with equal inputs are nested in each other: the nesting depth tells them apart
            cands = [r for r in unused if r["lin_inputs"] == b["lin_inputs"] and r["depth"] == b["depth"]]
            if not cands:  # fall back to the controls alone, then to anything, to name what is off
                cands = [r for r in unused if r["controls"] == b["controls"]] or \
                        [r for r in unused if r["chain"] == b["chain"]]
                r = cands[0] if cands else None
                role = first_wrong_role(exp, b, ht, r)
                return [(role, f"no CallIndirect takes the controls and captured values of "
                               f"`with {', '.join(render_mod(m) for m in b['mods'])}`:\n expected inputs "
                               f"{sorted(short(t) for t in b['lin_inputs'])}\n found blocks "
                               f"{[sorted(short(t) for t in r['lin_inputs']) for r in unused]}")]
            r = cands[0]
            unused.remove(r)
            where = f"`with {', '.join(render_mod(m) for m in b['mods'])}`"
            edag, eexp, ear = b["chain"]
            if r["dag_ops"] % 2 != edag or r["dag_ops"] > sum(1 for m in b["mods"] if mod_kind(m) == "dagger"):
                return [("chain.dagger", f"{where}: {r['dag_ops']} DaggerModifier ops")]
            if len(r["chain"][1]) != len(eexp):
                return [("chain.power_count", f"{where}: {len(r['chain'][1])} PowerModifier ops")]
            if r["chain"][1] != eexp:
                return [("chain.power_exponent", f"{where}: exponents wired from "
                                                 f"{[short(t) for t in r['chain'][1]]}, written {[short(t) for t in eexp]}")]
            if sorted(map(str, r["chain"][2])) != sorted(map(str, ear)):
                return [("chain.control_arity", f"{where}: ControlModifier arities {list(r['chain'][2])}, written {list(ear)}")]
            if r["chain"][2] != ear:
                return [("chain.order", f"{where}: ControlModifier arities in chain order {list(r['chain'][2])}, "
                                        f"written order {list(ear)}")]
            if r["controls"] != b["controls"]:
                return [("block.controls", f"{where}: control registers {[short(t) for t in r['controls']]}, "
                                           f"written {[short(t) for t in b['controls']]}")]
            if r["ncalls"] != b["ncalls"]:
                return [("funcdefn.calls", f"{where}: body has {b['ncalls']} gate calls, FuncDefn has {r['ncalls']} Call nodes")]
            if r["key"] != b["key"]:
                return [("block.body", f"{where}: body evaluates to\n  {short(r['key'])}\n written\n  {short(b['key'])}")]
        ncalls_main = sum(1 for d in ht.descendants(ht.funcs["main"]) if isinstance(h[d].op, ht.ops.Call))
        if ncalls_main != main_calls:
            return [("funcdefn.calls", f"main has {main_calls} gate calls outside with blocks, FuncDefn has {ncalls_main} Call nodes")]
        # final values of main's borrowed parameters
        mainf = ht.funcs["main"]
        outn = [c for c in h.children(mainf) if isinstance(h[c].op, ht.ops.Output)][0]
        lin = [p for p in PARAMS if is_linear(p)]
        if h.num_in_ports(outn) != len(lin):
            return [("dataflow.other", f"main returns {h.num_in_ports(outn)} values, expected {len(lin)}")]
        for i, p in enumerate(lin):
            got = ht.term(ht.src(outn, i))
            if got != env[p]:
                role = exp.last_role.get(p)
                b = f"writeback.{role[0]}" if role else "dataflow.other"
                return [(b, f"final value of `{p}`:\n  HUGR    {short(got)}\n  written {short(env[p])}")]
    except Malformed as e:
        return [(e.bucket, str(e))]
    return []


def first_wrong_role(exp, b, ht, r):
    """bucket for a with statement whose inputs are not found: which kind of input is off"""
    idx = exp.blocks.index(b)
    if idx > 0 and r is not None:
        missing = b["lin_inputs"] - r["lin_inputs"]
        for t in missing:
            # a value produced by an earlier block that did not arrive: write-back problem
            s = repr(t)
            if "'wctrl'" in s or "'wcap'" in s:
                return "writeback.control" if s.find("'wctrl'") >= 0 and (s.find("'wcap'") < 0 or s.find("'wctrl'") < s.find("'wcap'")) else "writeback.captured"
    if r is not None and r["controls"] != b["controls"]:
        return "block.controls"
    return "block.inputs"


def evaluate(case, waive=frozenset()):
    """-> (findings, info).  `waive`: finding classes whose failing predicate (here: hugr validate on a
    program of class H_CTRL) is not reported; every other predicate is still checked on the program."""
    from vlib import runner

    _enable()
    src = render(case)
    info = {"src": src}
    try:
        lm = runner.load_module(src)
    except SyntaxError as e:
        raise harness.HarnessError(f"generated module is not valid Python: {e}\n{src}") from e
    prog = "\n--- program\n" + src.split("@guppy\n", 1)[1]
    try:
        out, pkg = runner.compile_def(lm.mod.main, entry=False)
        info["got"] = out.kind
        if out.kind == "crash":
            return [("crash." + runner.crash_bucket(out.exc), out.message[-1500:] + prog)], info
        if out.kind == "rejected":
            return [("rejected." + out.title, "the program is within the accepted language (controls distinct and "
                                              "unused in the body); compiler says:\n" + out.message[-1500:] + prog)], info
        v = runner.validate_pkg(pkg)
        finds = []
        if v.kind != "ok":
            info["got"] = "invalid"
            msg = v.message.split("Stack backtrace")[0].strip()
            cls = H_CTRL if has_class(case, H_CTRL) and "Cannot connect array(" in msg else \
                "invalid_hugr.modifier_signature" if "Conflicting signature" in msg and "Modifier in extension" in msg \
                else "invalid_hugr.other"
            if cls in waive:
                info["waived"] = cls
            else:
                finds.append((cls, msg[:900]))
        finds += compare(case, pkg)
        return [(b, d + prog) for b, d in finds], info
    finally:
        lm.dispose()


def replay(case):
    finds, _ = evaluate(case)
    return finds[0] if finds else None


# =============================================================================== generator
class Gen:
    def __init__(self, rnd):
        self.rnd = rnd

    def chance(self, pct):
        return self.rnd.randrange(100) < pct

    def pick(self, xs):
        xs = list(xs)
        return xs[self.rnd.randrange(len(xs))]

    def sample(self, xs, k):
        xs = list(xs)
        self.rnd.shuffle(xs)
        return xs[:k]

    def classical(self, kind):
        if kind == "n":
            return self.pick([["var", "n"], ["var", "m"], ["lit", self.rnd.randrange(0, 9)]])
        return self.pick([["var", "x"], ["lit", self.pick([0.5, 1.25, 2.0])]])

    def call(self, qs, arrs):
        """one gate call on the available qubits / arrays, or None"""
        gates = [g for g, ks in GATES.items()
                 if sum(k == "q" for k in ks) <= len(qs)
                 and all(any(ARRAYS[a] == int(k[1]) for a in arrs) for k in ks if k.startswith("a"))]
        if not self.chance(35):  # gates taking a classical array in about a third of the calls
            gates = [g for g in gates if not any(k in ("kn", "kf") for k in GATES[g])] or gates
        if not gates:
            return None
        g = self.pick(gates)
        qq = self.sample(qs, 2)
        args = []
        for k in GATES[g]:
            if k == "q":
                args.append(qq.pop())
            elif k in ("n", "f"):
                args.append(self.classical(k))
            elif k in ("kn", "kf"):
                args.append([c for c, kk in CARRAYS.items() if kk == k][0])
            else:
                args.append(self.pick([a for a in arrs if ARRAYS[a] == int(k[1])]))
        return {"k": "call", "g": g, "args": args}

    def calls(self, qs, arrs, lo, hi):
        out = []
        for _ in range(self.rnd.randrange(lo, hi + 1)):
            c = self.call(qs, arrs)
            if c:
                out.append(c)
        return out

    def modifiers(self, n, qs, arrs):
        """n modifiers + the qubits / arrays left for the body"""
        qs, arrs = list(qs), list(arrs)
        mods = []
        for _ in range(n):
            r = self.rnd.randrange(100)
            if r < 30:
                mods.append([self.pick(["dagger", "dagger", "dagger()"])])
            elif r < 60:
                mods.append(["power", self.classical("n")])
            elif r < 85 or not arrs:
                k = min(self.pick([1, 1, 2, 2, 3]), max(1, len(qs) - 1))
                if len(qs) <= 1:
                    mods.append(["dagger"])
                    continue
                cq = self.sample(qs, k)
                qs = [q for q in qs if q not in cq]
                mods.append(["control", cq])
            else:
                a = self.pick(arrs)
                arrs.remove(a)
                mods.append(["controla", a])
        return mods, qs, arrs

    def stack(self, total, qs, arrs, depth=0):
        """a with statement carrying `here` of the `total` modifiers, the rest in a nested statement"""
        here = total if depth >= 2 or self.chance(45) else self.rnd.randrange(1, total + 1)
        mods, bq, ba = self.modifiers(here, qs, arrs)
        body = []
        rest = total - here
        if rest:
            body += self.calls(bq, ba, 0, 1)
            body.append(self.stack(rest, bq, ba, depth + 1))
            body += self.calls(bq, ba, 0, 1)
        else:
            body += self.calls(bq, ba, 1, 3)
            if not body:
                body = [{"k": "call", "g": "u", "args": [bq[0]]}] if bq else []
        return {"k": "with", "mods": mods, "body": body}

    def case(self):
        items = self.calls(QUBITS, list(ARRAYS), 0, 2)
        nst = self.pick([1, 1, 1, 2])
        for s in range(nst):
            total = self.pick([1, 2, 2, 3, 3, 4, 4])
            items.append(self.stack(total, QUBITS, list(ARRAYS)))
            # later uses of controls / captured values
            items += self.calls(QUBITS, list(ARRAYS), 1, 4)
        return {"items": items}


def ok_case(case):
    """every with body must use at least one qubit / array (so the block has linear captures)"""
    for w, _ in walk_withs(case["items"]):
        if not w["body"]:
            return False
    return True


# =============================================================================== worker
def describe(case):
    withs = walk_withs(case["items"])
    labels = set()
    nontrivial = False
    # a stack = an outermost with statement together with everything nested inside it
    for it in case["items"]:
        if it["k"] != "with":
            continue
        stack = [it] + [w for w, _ in walk_withs(it["body"])]
        mods = [m for w in stack for m in w["mods"]]
        kinds = {mod_kind(m) for m in mods}
        labels.add(f"stack:{len(mods)}mods")
        labels.add(f"stack:{len(kinds)}kinds")
        labels.add("form:" + ("comma+nested" if len(stack) > 1 and any(len(w["mods"]) > 1 for w in stack)
                              else "nested" if len(stack) > 1 else "comma" if len(mods) > 1 else "single"))
        if len(mods) >= 2 and len(kinds) >= 2:
            nontrivial = True
    for w, d in withs:
        ms = w["mods"]
        nd = sum(1 for m in ms if mod_kind(m) == "dagger")
        if nd >= 2:
            labels.add("dagger:repeated")
        if nd:
            labels.add("mod:dagger")
        if sum(1 for m in ms if m[0] == "power") >= 2:
            labels.add("power:repeated")
        if sum(1 for m in ms if m[0] in ("control", "controla")) >= 2:
            labels.add("control:repeated")
        for m in ms:
            if m[0] == "power":
                labels.add("power:" + m[1][0])
            if m[0] == "control":
                labels.add(f"control:{len(m[1])}q")
            if m[0] == "controla":
                labels.add("control:array")
        for it in w["body"]:
            if it["k"] == "call":
                for a in it["args"]:
                    if not isinstance(a, str):
                        labels.add("body:classical_capture" if a[0] == "var" else "body:literal")
                    elif a in ARRAYS:
                        labels.add("body:captured_array")
                    elif a in CARRAYS:
                        labels.add("body:captured_classical_array")
        # affine (classical array) and copyable (nat / float variable) captures of one body, in order of first use
        uses = [("affine" if isinstance(a, str) else "copyable")
                for it in w["body"] if it["k"] == "call" for a in it["args"]
                if (isinstance(a, str) and a in CARRAYS) or (not isinstance(a, str) and a[0] == "var")]
        if "affine" in uses and "copyable" in uses:
            labels.add("body:affine+copyable_capture")
            labels.add("capture_order:" + uses[0] + "_first")
    if len([1 for it in case["items"] if it["k"] == "with"]) > 1:
        labels.add("two_stacks")
    return sorted(labels), nontrivial


def run_case(ctx, case, active):
    try:
        finds, info = evaluate(case, waive=active)
        if info.get("waived"):
            ctx.exclude(EXCLUDE[info["waived"]] + " (hugr validate verdict waived, structure still checked)")
    except harness.HarnessError as e:
        ctx.harness_error(str(e))
        return
    labels, nontrivial = describe(case)
    labels.append("got:" + info.get("got", "?"))
    body = info["src"].split("@guppy\n", 1)[1]
    ctx.case(case, nontrivial, labels=labels, sample={"program": body})
    for b, d in finds:
        ctx.violation(b, case, d)


def worker(ctx):
    from hypothesis import strategies as st

    active = frozenset(active_exclusions())
    ctx.notes["active_exclusions"] = sorted(active)
    if ctx.shard == 0:
        for key, probe in PROBES.items():
            if key in active:
                continue
            r = replay(probe)
            ctx.notes["probe:" + key] = "fails" if r else "passes"
            if r:
                ctx.violation(r[0], probe, r[1])

    RND = st.randoms(use_true_random=True)

    def body(rnd):
        c = Gen(rnd).case()
        if not ok_case(c):
            ctx.exclude("with statement with an empty body drawn")
            return
        run_case(ctx, c, active)

    harness.hyp_search(ctx, RND, body, max_examples=ctx.params["n"], chunk=100)


SPEC = harness.Spec(
    PROP, worker, replay,
    rule=("random straight-line bodies of main(q0..q5, cs, ds, es, n, m, x, ks, fs): 0-2 gate calls, then 1-2 with stacks "
          "of 1-4 modifiers (dagger / dagger() / control of 1-3 qubits / control(array) / power(literal|n|m), "
          "repetitions allowed) split at random into comma-form statements and nested blocks, bodies with 1-3 "
          "declared-unitary gate calls on captured qubits, arrays, nat/float variables and literals and (about a third "
          "of the calls) whole classical arrays ks: array[nat,2] / fs: array[float,2] (plus calls "
          "around a nested block), each stack followed by 1-4 gate calls on controls / captured values. Each "
          "program is compiled, validated and its HUGR compared with the symbolic evaluation of the source. "
          "non-trivial = some stack has >= 2 modifiers of >= 2 kinds; distinct = distinct program structure"),
    assumptions=[
        "modifier algebra taken from the unchanged compiler where the statement's 'one op per modifier, in source "
        "order' leaves room: within one with statement the kinds are grouped (dagger, powers, controls), dagger "
        "pairs cancel (0 or 1 DaggerModifier), powers keep their relative source order, controls keep theirs; "
        "nested with statements are separate functions wrapped separately",
        "the port order of several control registers at the CallIndirect is left open (control registers commute); "
        "in/out positions must agree and hugr validate decides type consistency",
        "calling convention: borrowed non-copyable parameters of a function (qubits, arrays of qubits, classical "
        "arrays) come back as outputs in parameter order; "
        "main's HUGR inputs are its parameters in order",
        "declared gates with unitary=True stand for arbitrary unitary callees; the term of a call is determined by "
        "callee name, argument terms and output index (calls on disjoint wires are unordered in a dataflow graph)",
        "controls and captured values are parameters of main (borrowed); subscripted controls, locally allocated "
        "qubits and owned captures are outside the generated domain",
    ],
    shards={"quick": 16, "thorough": 16},
    budget_s={"quick": 90, "thorough": 900},
    params={"quick": {"n": 300}, "thorough": {"n": 8000}},
    min_nontrivial=300,
)

if __name__ == "__main__":
    harness.main(SPEC)
