"""C01 Accepted programs lower to valid HUGR.

Domain: programs that are well-typed by construction, from four generators:
  * GenProg (vlib/gen/prog.py): classical control/data flow, tuples, structs, arrays, nested defs,
    unreachable code, branches whose successors need different live values;
  * GenLin valid programs (vlib/gen/lin.py): qubits used linearly (alloc/gate/measure/discard,
    owned and borrowed parameters, struct and tuple places across branches and loops);
  * generic programs (vlib/gen/generic.py): functions/structs generic over types, array lengths and
    comptime arguments at 1-3 instantiations, partially monomorphized;
  * hand-written shape templates with drawn parameters (tuple-sum joins with linear values, affine
    values left unused -> inserted drops, struct places assigned before and read after loops).
Oracle: if check() accepts then compile() raises nothing and the hugr-core validator accepts the
package exactly as /repo emitted it."""
import os
import re
import sys

sys.path.insert(0, os.path.dirname(os.path.dirname(os.path.abspath(__file__))))
from vlib import harness  # noqa: E402

PROP = "C01"

# known finding classes left out by construction (C01_EXCLUDE=none re-opens them); each has a fixed
# probe in known_findings.json
EXCLUDE = {"ho_flattened_return"}
if os.environ.get("C01_EXCLUDE") is not None:
    _e = os.environ["C01_EXCLUDE"].strip()
    EXCLUDE = set() if _e in ("", "none") else {x.strip() for x in _e.split(",")}

TEMPLATE_PRELUDE = """
from guppylang.std.quantum import h, cx, x, measure_array, discard_array
from guppylang.std.option import Option, nothing, some

@guppy.struct
class QS:
    q: qubit
    n: int

@guppy.struct
class AS:
    xs: array[int, 3]
    k: int

@guppy.declare
def use_q(q: qubit) -> None: ...

@guppy.declare
def take_q(q: qubit @owned) -> None: ...

@guppy.declare
def mk_arr() -> array[int, 3]: ...

@guppy.declare
def take_arr(xs: array[int, 2] @owned) -> None: ...

@guppy.declare
def use_arr(xs: array[int, 2]) -> None: ...

@guppy.declare
def take_qs(s: QS @owned) -> None: ...

@guppy.declare
def use_int(x: int) -> None: ...

@guppy.declare
def mk_qs() -> QS: ...
"""


def invalid_signature(msg):
    # the known class: a function value whose result row was flattened (None -> [], tuple -> its
    # elements) connected to a port whose result is the un-flattened type (Unit / one tuple value)
    mm = re.search(r"Cannot connect (.*?) -> (\[.*\]) to (.*?) -> (\[.*\])\.\s*$", msg.split("\n\nStack backtrace")[0], re.S)
    if mm and mm.group(1) == mm.group(3):
        o1, o2 = mm.group(2), mm.group(4)
        if {o1, o2} == {"[]", "[Unit]"} or o1 == "[" + o2 + "]" or o2 == "[" + o1 + "]":
            return "ho_flattened_return"
    m = msg.lower()
    for key in ("more than one connection", "no connection", "unconnected", "incompatible", "signature", "type mismatch",
                "not a valid", "dominance", "order edge", "cycle", "entrypoint", "linear", "copyable", "bound"):
        if key in m:
            return key.replace(" ", "_")
    return "other"


def judge(src, entry, is_entry, experimental=False):
    """-> (status, bucket, detail): ok | rejected | violation"""
    if experimental or "# experimental" in src:
        from guppylang_internals.experimental import enable_experimental_features

        with enable_experimental_features():
            return _judge(src, entry, is_entry)
    return _judge(src, entry, is_entry)


def _judge(src, entry, is_entry):
    from vlib import runner

    try:
        lm = runner.load_module(src)
    except BaseException as e:  # noqa: BLE001
        out = runner.classify_exception(e)
        if out.kind == "rejected":
            return "rejected", out.title, out.message[-600:]
        return "generr", type(e).__name__, repr(e)[:300]
    try:
        defn = getattr(lm.mod, entry)
        chk = runner.check_def(defn)
        if chk.kind == "rejected":
            return "rejected", chk.title, chk.message[-800:]
        if chk.kind == "crash":
            return "violation", "check_crash." + runner.crash_bucket(chk.exc), chk.message[-1500:]
        out, pkg = runner.compile_def(defn, entry=is_entry)
        if out.kind == "rejected":
            # accepted by check() but rejected by compile(): entrypoint errors are legitimate
            # (only raised by compile_entrypoint), anything else means check() and compile() disagree
            if "Entrypoint" in (out.title or ""):
                return "rejected", out.title, out.message[-300:]
            return "violation", "compile_rejects_checked." + re.sub(r"\W+", "_", out.title)[:40], out.message[-1200:]
        if out.kind == "crash":
            return "violation", "compile_crash." + runner.crash_bucket(out.exc), out.message[-1500:]
        val = runner.validate_pkg(pkg)
        if val.kind != "ok":
            return "violation", "invalid_hugr." + invalid_signature(val.message), val.message[:1500]
        return "ok", None, None
    finally:
        lm.dispose()


def replay(case):
    st, bucket, detail = judge(case["src"], case.get("entry", "main"), case.get("is_entry", True))
    if st == "violation":
        return (bucket, detail)
    return None


def templates(st):
    """hand-written shapes with drawn parameters -> strategy of dict(src body, labels)"""
    lin_ty = st.sampled_from(["qubit", "QS", "array[qubit, 2]", "tuple[qubit, int]"])
    aff_mk = st.sampled_from(["mk_arr()", "AS(mk_arr(), 1)", "some(mk_arr())", "(mk_arr(), 2)", "array(mk_arr(), mk_arr())",
                              "array(1, 2, 3)", "array(x for x in range(4))"])

    @st.composite
    def tuple_sum(draw):
        # a branch whose successors need different live sets, with linear values among them
        n = draw(st.integers(1, 3))
        qs = [f"q{i}" for i in range(n)]
        keep_true = draw(st.lists(st.sampled_from(qs), unique=True))
        L = ["@guppy", "def f(c: bool, d: bool, a: int, b: float" + "".join(f", {q}: qubit @owned" for q in qs) + ") -> int:"]
        L.append("    z = a + 1")
        L.append("    if c:")
        for q in qs:
            if q not in keep_true:
                L.append(f"        take_q({q})")
        L.append("        y = z * 2")
        if draw(st.booleans()):
            L.append("        if d:")
            for q in keep_true:
                L.append(f"            use_q({q})")
            L.append("            y = y + a")
        for q in keep_true:
            L.append(f"        take_q({q})")
        L.append("        return y")
        loop = draw(st.booleans())
        if loop:
            L.append("    i = 0")
            L.append("    while i < a:")
            for q in qs:
                L.append(f"        use_q({q})")
            L.append("        i += 1")
            if draw(st.booleans()):
                L.append("        if d:")
                L.append("            break")
        L.append("    w = b * 2.0")
        for q in draw(st.permutations(qs)):
            L.append(f"    take_q({q})")
        L.append("    return z + int(w)" if draw(st.booleans()) else "    return z")
        return {"src": "\n".join(L) + "\n", "labels": ["tmpl:tuple_sum"] + (["tmpl:loop"] if loop else []), "entry": "f"}

    @st.composite
    def affine_unused(draw):
        # affine values created / received and never used -> drops must be inserted
        mk = draw(aff_mk)
        shape = draw(st.integers(0, 4))
        L = ["@guppy"]
        if shape == 0:
            L += ["def f(c: bool) -> int:", f"    v = {mk}", "    return 1"]
        elif shape == 1:
            L += ["def f(c: bool) -> int:", "    if c:", f"        v = {mk}", "    return 1"]
        elif shape == 2:
            L += ["def f(c: bool) -> int:", f"    v = {mk}", "    while c:", f"        v = {mk}", "        c = False", "    return 1"]
        elif shape == 3:
            L += ["def f(xs: array[int, 3] @owned, s: AS @owned, c: bool) -> int:", "    if c:", "        return s.k", "    return xs[0]"]
        else:
            L += ["def f(c: bool) -> int:", f"    {mk}", "    for i in range(2):", f"        w = {mk}", "    return 1"]
        return {"src": "\n".join(L) + "\n", "labels": ["tmpl:affine_unused", f"tmpl:affine_shape{shape}"], "entry": "f"}

    @st.composite
    def struct_place(draw):
        # struct / tuple places assigned in one block and read after a loop or join
        k = draw(st.integers(0, 3))
        L = ["@guppy", "def f(s: QS @owned, c: bool, n: int) -> QS:"]
        if k == 0:
            L += ["    i = 0", "    while i < n:", "        use_q(s.q)", "        i += 1", "    return s"]
        elif k == 1:
            L += ["    q = s.q", "    if c:", "        use_q(q)", "    s.q = q", "    return s"]
        elif k == 2:
            L += ["    take_q(s.q)", "    for i in range(3):", "        if c:", "            continue", "    s.q = qubit()", "    return s"]
        else:
            L += ["    t = (s, n)", "    while c:", "        (s2, m) = t", "        use_q(s2.q)", "        t = (s2, m + 1)", "        c = False",
                  "    (s3, m3) = t", "    return s3"]
        return {"src": "\n".join(L) + "\n", "labels": ["tmpl:struct_place", f"tmpl:struct_shape{k}"], "entry": "f"}

    @st.composite
    def generic_linear(draw):
        # functions generic over a linear T and n, called at 1-2 instantiations
        n1, n2 = draw(st.integers(0, 3)), draw(st.integers(1, 4))
        L = ['T = guppy.type_var("T", copyable=False, droppable=False)', 'n = guppy.nat_var("n")', "",
             "@guppy", "def ident(x: T @owned) -> T:", "    return x", "",
             "@guppy", "def pass_arr(xs: array[T, n] @owned, c: bool) -> array[T, n]:",
             "    if c:", "        return xs", "    ys = xs", "    return ys", "",
             "@guppy", f"def f(qs: array[qubit, {n1}] @owned, rs: array[qubit, {n2}] @owned, c: bool) -> qubit:",
             "    q = ident(qubit())", "    qs = pass_arr(qs, c)", "    rs = pass_arr(ident(rs), not c)",
             "    discard_array(qs)", "    discard_array(rs)", "    return q"]
        return {"src": "\n".join(L) + "\n", "labels": ["tmpl:generic_linear"], "entry": "f"}

    NAMES = ["a", "q", "zs", "arr", "m", "x", "b1", "k", "w", "qq", "aa", "z", "n1", "r", "t0", "v"]
    KINDS = {"qubit": ("qubit @owned", "take_q({v})", "use_q({v})"),
             "arr": ("array[int, 2] @owned", "take_arr({v})", "use_arr({v})"),
             "qs": ("QS @owned", "take_qs({v})", "use_q({v}.q)"),
             "int": ("int", "use_int({v})", "use_int({v} + 1)"),
             "float": ("float", "use_int(int({v}))", "use_int(1)")}

    @st.composite
    def livesets(draw):
        """mixed linear / affine / copyable variables whose last use sits in different successors of
        one or two nested branches: block outputs of different kinds in name-dependent order"""
        k = draw(st.integers(2, 6))
        names = draw(st.lists(st.sampled_from(NAMES), min_size=k, max_size=k, unique=True))
        kinds = [draw(st.sampled_from(["qubit", "qubit", "arr", "arr", "qs", "int", "float"])) for _ in names]
        nested = draw(st.booleans())
        loop = draw(st.booleans())
        where = []
        for kd in kinds:
            opts = ["after", "both", "T_and_after_F"] if kd in ("qubit", "qs") else ["after", "both", "T", "F", "none"]
            where.append(draw(st.sampled_from(opts)))
        sig = ", ".join(f"{nm}: {KINDS[kd][0]}" for nm, kd in zip(names, kinds))
        L = ["@guppy", f"def f(c: bool, d: bool, {sig}) -> int:", "    acc = 0"]
        T, F, A = [], [], []
        for nm, kd, w in zip(names, kinds, where):
            take, use = KINDS[kd][1].format(v=nm), KINDS[kd][2].format(v=nm)
            if draw(st.booleans()):
                T.append(use) if draw(st.booleans()) else F.append(use)
            if w == "after":
                A.append(take)
            elif w == "both":
                T.append(take); F.append(take)
            elif w == "T_and_after_F":
                T.append(take); F.append(use); F.append(take)
            elif w == "T":
                T.append(take)
            elif w == "F":
                F.append(take)
        T = list(draw(st.permutations(T))) if all("take" not in x for x in T) else T
        L.append("    if c:")
        if nested:
            L.append("        if d:")
            L.append("            acc += 1")
            L.append("        else:")
            L.append("            acc += 2")
        L += ["        " + x for x in T] or ["        pass"]
        L.append("        acc += 3")
        if draw(st.booleans()) and not A:
            L.append("        return acc")
            ret_in_T = True
        else:
            ret_in_T = False
        L.append("    else:")
        L += ["        " + x for x in F] or ["        pass"]
        if loop:
            L += ["        i = 0", "        while i < 2:", "            acc += i", "            i += 1"]
        L += ["    " + x for x in A]
        L.append("    return acc")
        return {"src": "\n".join(L) + "\n", "labels": ["tmpl:livesets"] + (["tmpl:nested"] if nested else []), "entry": "f"}

    @st.composite
    def generic_inst(draw):
        """generic functions instantiated at unusual types (None, empty tuple, tuples, arrays, functions)"""
        tys = {"int": "1", "None": "None", "tuple[int, bool]": "(1, True)", "tuple[()]": "()", "float": "1.5",
               "array[int, 2]": "array(1, 2)", "bool": "c", "tuple[None, int]": "(None, 2)"}
        t1 = draw(st.sampled_from(sorted(tys)))
        t2 = draw(st.sampled_from(sorted(tys)))
        copy1 = "array" not in t1
        L = ['T = guppy.type_var("T", copyable=False, droppable=True)', 'U = guppy.type_var("U", copyable=False, droppable=True)', "",
             "@guppy", "def ident(x: T @owned) -> T:", "    return x", "",
             "@guppy", "def first(x: T @owned, y: U @owned) -> T:", "    return x", "",
             "@guppy", "def second(x: T @owned, y: U @owned) -> U:", "    return y", "",
             "@guppy", "def pair(x: T @owned, y: U @owned) -> tuple[U, T]:", "    return y, x", "",
             "@guppy", "def app(f: Callable[[int], T], x: int) -> T:", "    return f(x)", "",
             "@guppy", f"def mk1(x: int) -> {t1}:", f"    c = x > 0", f"    return {tys[t1]}", "",
             "@guppy", f"def f(c: bool) -> None:"]
        forms = [f"r1 = ident({tys[t1]})", f"r2 = first({tys[t1]}, {tys[t2]})", f"r3 = second({tys[t1]}, {tys[t2]})",
                 f"r4 = pair({tys[t1]}, {tys[t2]})", "r5 = app(mk1, 3)", f"r6 = ident(ident({tys[t2]}))",
                 f"r7: {t2} = second({tys[t1]}, {tys[t2]})", "r8 = ident(mk1(2))", "app(mk1, 4)"]
        picked = draw(st.lists(st.sampled_from(forms), min_size=1, max_size=4, unique=True))
        if (t1 == "None" or t1.startswith("tuple")) and "ho_flattened_return" in EXCLUDE:
            # known finding (known_findings.json): a function value returning None or a tuple passed where the
            # return type is a type parameter lowers to a flattened result row vs the expected single value
            picked = [fm for fm in picked if "app(" not in fm] or [forms[0]]
        for fm in picked:
            L.append("    " + fm)
        return {"src": "from collections.abc import Callable\n" + "\n".join(L) + "\n", "labels": ["tmpl:generic_inst", "tmpl:inst:" + t1], "entry": "f"}

    @st.composite
    def closures(draw):
        # nested functions (capturing closures: experimental gate opened by the judge) whose locals,
        # parameters and captured variables share names with the function itself / each other, are
        # live across blocks or not, with and without recursion
        ncap = draw(st.integers(0, 2))
        shadow = draw(st.sampled_from(["self", "self", "param", "outer", "none"]))
        recursive = shadow != "self" and draw(st.integers(0, 3)) == 0
        across = draw(st.booleans())
        loop = draw(st.booleans())
        caps = ["k", "m"][:ncap]
        L = ["# experimental", "@guppy", "def f(a: int, c: bool) -> int:", "    k = a + 1", "    m = a * 2"]
        local = {"self": "hh", "param": "x", "outer": "k" if ncap == 0 else "zz", "none": "loc"}[shadow]
        L.append("    def hh(x: int) -> int:")
        init = " + ".join(["x"] + caps)
        L.append(f"        {local} = {init}")
        if across:
            L += ["        if x > 0:", f"            {local} = {local} + 1"]
        if loop:
            L += ["        i = 0", "        while i < 2:", f"            {local} = {local} + i" if across else "            pass", "            i += 1"]
        if recursive:
            L += ["        if x > 100:", "            return hh(x - 1)"]
        L.append(f"        return {local}")
        call = draw(st.sampled_from(["return hh(a)", "r = hh(a)\n    return r + hh(1)", "if c:\n        return hh(a)\n    return hh(2)"]))
        L.append("    " + call)
        return {"src": "\n".join(L) + "\n", "labels": ["tmpl:closure", f"tmpl:closure:shadow_{shadow}", f"tmpl:closure:caps{ncap}"]
                + (["tmpl:closure:recursive"] if recursive else []) + (["tmpl:closure:across_blocks"] if across else []), "entry": "f"}

    return st.one_of(tuple_sum(), affine_unused(), struct_place(), generic_linear(), livesets(), livesets(), generic_inst(), closures(), closures())


def worker(ctx):
    from hypothesis import strategies as st

    from vlib import runner
    from vlib.gen import generic as G
    from vlib.gen import lin, places, prog

    @st.composite
    def item(draw):
        r = draw(st.integers(0, 10))
        if r <= 2:
            p = draw(prog.programs(n_funcs=(1, 3), max_depth=3))
            return {"kind": "genprog", "src": runner.PRELUDE + p["src"], "entry": "main", "is_entry": True,
                    "labels": p["labels"], "nontrivial": bool(p["nontrivial"])}
        if r <= 5:
            p = draw(lin.valid_programs(name="f"))
            return {"kind": "genlin", "src": runner.PRELUDE + p["src"], "entry": "f", "is_entry": False,
                    "labels": [], "nontrivial": True}
        if r <= 6:
            p = draw(G.generic_programs(executable=bool(draw(st.booleans())), max_roots=3))
            return {"kind": "generic", "src": G.PRELUDE + p["generic"], "entry": "main", "is_entry": True,
                    "labels": list(p["labels"])[:12], "nontrivial": bool(p["nontrivial"])}
        if r == 8:
            p = draw(places.programs())
            return {"kind": "places", "src": runner.PRELUDE + p["src"], "entry": "f", "is_entry": False,
                    "labels": ["places"] + [l for l in p["labels"] if l.startswith("op:")], "nontrivial": bool(p["nontrivial"])}
        t = draw(templates(st))
        return {"kind": "template", "src": runner.PRELUDE + TEMPLATE_PRELUDE + t["src"], "entry": t["entry"], "is_entry": False,
                "labels": t["labels"], "nontrivial": True}

    rejected = {"genprog": 0, "genlin": 0, "generic": 0, "template": 0, "places": 0}
    totals = dict(rejected)

    def body(it):
        st_, bucket, detail = judge(it["src"], it["entry"], it["is_entry"])
        totals[it["kind"]] += 1
        ctx.case(it["src"], it["nontrivial"] and st_ == "ok", labels=["gen:" + it["kind"], "status:" + st_] + it["labels"],
                 sample={"kind": it["kind"], "src": it["src"][-700:]} if st_ == "ok" and it["nontrivial"] else None)
        if st_ == "violation":
            ctx.violation(bucket, {"src": it["src"], "entry": it["entry"], "is_entry": it["is_entry"]},
                          detail + "\n--- program ---\n" + it["src"][-2500:])
        elif st_ == "rejected":
            rejected[it["kind"]] += 1
            ctx.label(f"rejected:{it['kind']}:{bucket}")
            ctx.sample(f"rejected:{it['kind']}:{bucket}", {"src": it["src"][-900:], "why": detail})
        elif st_ == "generr":
            ctx.harness_error(f"{it['kind']}: module did not load: {bucket} {detail}\n{it['src'][-800:]}")

    harness.hyp_search(ctx, item(), body, max_examples=ctx.params["n"], chunk=50, time_frac=0.85)
    for k, n in totals.items():
        if n >= 20 and rejected[k] > 0.1 * n:
            ctx.harness_error(f"generator {k} unsound: {rejected[k]}/{n} valid-by-construction programs were rejected")


SPEC = harness.Spec(
    PROP, worker, replay,
    rule=("programs well-typed by construction from GenProg (classical fragment), GenLin (linear qubit programs incl. struct/tuple "
          "places, asymmetric branches, loops), the generic-program generator (type / length / comptime parameters, partial "
          "monomorphization) and parametrised shape templates (tuple-sum joins with linear values, unused affine values, struct "
          "places across loops, functions generic over linear T and n, nested functions with captured variables and name shadowing "
          "- experimental gate open) and GenPlaces (valid-by-construction statement sequences over places nested three levels deep: "
          "whole / partial consumption, borrowing, re-assignment of leaves, intermediate structs and roots, moves, state-preserving "
          "branches and loops); each accepted program is compiled and the package is "
          "validated by hugr-core. non-trivial = accepted program with a loop or join plus a linear value / generic instantiation / "
          "inserted drop (all GenLin and template programs, flagged GenProg and generic ones); distinct = distinct source"),
    assumptions=["hugr-core's validator (hugr wheel) is the judge of HUGR validity; the package is validated exactly as /repo emitted it, with extension "
                 "definitions completed on the third-party side (DESIGN.md 1.2)",
                 "rejected programs are outside the property (their rate per generator is bounded at 10% else exit 2)"],
    shards={"quick": 16, "thorough": 16},
    budget_s={"quick": 90, "thorough": 1200},
    params={"quick": {"n": 150}, "thorough": {"n": 4000}},
    min_nontrivial=300,
)

if __name__ == "__main__":
    harness.main(SPEC)
