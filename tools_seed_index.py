"""regenerates seeded/INDEX.md from the meta.json files"""
import json, os, glob
rows=[]
for p in sorted(glob.glob(os.path.join(os.path.dirname(os.path.abspath(__file__)),"seeded","*","meta.json"))):
    m=json.load(open(p))
    caught=", ".join(m.get("caught_by") or []) or "**missed**"
    # a run that ended with exit 2 (harness inconclusive, e.g. shard timeouts on a loaded machine) is neither a catch nor a miss
    first=[h for h in m.get("history",[]) if h.get("caught_by")==[] and h.get("ran") and all(r.get("rc")==0 for r in h["ran"] if r.get("check")==m["property"])]
    note=" (missed before the check was strengthened)" if first and m.get("caught_by") else ""
    rows.append(f"| {m['seed_id']} | {m['property']} | {m.get('what','')} | {m.get('needs','')} | {caught}{note} |")
out="# Seeded changes (independent sub-agents, property text only) and the checks that catch them\n\nEach directory holds patch.diff, the demonstration (demo.py exits 0 on the clean tree, non-zero with the patch), the author's notes and meta.json (what was run, against which /repo HEAD, with which result; `history` keeps earlier runs).\n\n| seed | property | change | needs, to manifest | caught by (quick tier) |\n|---|---|---|---|---|\n"+"\n".join(rows)+"\n"
open(os.path.join(os.path.dirname(os.path.abspath(__file__)),"seeded","INDEX.md"),"w").write(out)
print(len(rows),"seeds")
