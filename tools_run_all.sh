#!/bin/bash
# run every registered quick check once at $VERIF_SEED (default 1) and print one line per check
cd "$(dirname "$0")"
for f in $(python3 -c "import json; print(' '.join(c['quick_cmd'].split()[1] for c in json.load(open('MANIFEST.json'))['checks']))"); do
  t0=$(date +%s)
  out=$(/venv/bin/python $f --tier ${VERIF_TIER:-quick} 2>&1)
  rc=$?
  echo "$f rc=$rc $(( $(date +%s) - t0 ))s :: $(echo "$out" | grep -E '^C[0-9]+ tier' | tail -1 | cut -c1-150)"
  echo "$out" | grep -E "^VIOLATION|^HARNESS" | head -4 | cut -c1-300
done
