"""C21 stage 2: statement-sequence bodies over containers and borrowing calls.

A body is a straight-line sequence of statements over two non-copyable structs `s t: R`
(`xs: array[int, 2]`, `n: int`, `p: tuple[int, bool]`), a nested struct `w: W` (`r: R`, `m: int`),
a local array `zs` and ints `a b`: calls that *borrow* a struct / a struct's array field / a local
array and mutate or replace it as a whole (`mem_swap` in the callee or in the body), field / element
/ tuple reads after such calls, element assignment, tuple unpacking of a field, consuming a struct
and rebinding the variable.  Every statement shape is accepted by both modes on the unchanged
tree (pinned by experiment; comptime cannot branch or loop on traced values, so there is no
control flow).  The same body text is emitted under `@guppy` and `@guppy.comptime`; the function
returns an accumulator that folds every read in order plus a final dump of all components.
Oracle: identical results in both modes for every input (differential)."""
from __future__ import annotations

from hypothesis import strategies as st

HELPERS = '''
from guppylang.std.mem import mem_swap

@guppy.struct
class R:
    xs: array[int, 2]
    n: int
    p: tuple[int, bool]

@guppy.struct
class W:
    r: R
    m: int

@guppy
def replace(s: R, k: int) -> None:
    t = R(array(k, k + 1), k + 2, (k + 3, True))
    mem_swap(s, t)

@guppy
def poke(s: R, i: int, k: int) -> None:
    s.xs[i] = k

@guppy
def bumpa(a: array[int, 2], k: int) -> None:
    a[0] += k

@guppy
def swap2(s: R, t: R) -> None:
    mem_swap(s, t)

@guppy
def fresh(k: int) -> R:
    return R(array(k, 2 * k), k - 1, (k + 5, False))

@guppy
def total(s: R @owned) -> int:
    return s.n + 3 * s.p[0] + 5 * s.xs[0] + 7 * s.xs[1]

@guppy
def wreplace(w: W, k: int) -> None:
    v = W(fresh(k), k + 4)
    mem_swap(w, v)

@guppy
def wpoke(w: W, k: int) -> None:
    w.r.xs[1] = k

@guppy
def treplace(tp: tuple[array[int, 2], int], k: int) -> None:
    o = (array(k, k + 1), k + 2)
    mem_swap(tp, o)
'''

# A borrowed *tuple* whose copyable element is a bare variable: tuples cannot be updated slot-wise, so
# comptime rewires the variable's object itself (known finding C21 borrowed_tuple_alias).  When the
# class is excluded the element is written `(x + 0)` (a fresh object), which keeps the statement shape.
ALIAS_KEY = "borrowed_tuple_alias"
BARE = ("a", "b")
#: element expressions of a lent tuple: traced values only (a plain Python constant inside a borrowed
#: tuple is refused by comptime with "Cannot borrow Python object", a documented limitation)
TRACED = {"3": "a", "11": "b", "acc": "a + b"}

SIG = "(xs: array[int, 2] @owned, ys: array[int, 2] @owned, a: int, b: int) -> int:\n"
KEXPR = ["a", "b", "3", "a + b", "b - 1", "11", "a * 2", "acc"]
READS = {"n": "{v}.n", "p0": "{v}.p[0]", "xs0": "{v}.xs[0]", "xs1": "{v}.xs[1]"}


@st.composite
def bodies(draw):
    """-> {'stmts': [...], 'inputs': [[x0,x1,y0,y1,a,b], ...]}"""
    n = draw(st.integers(2, 7))
    stmts = []
    for j in range(n):
        kind = draw(st.sampled_from(["replace", "replace", "poke", "swap2", "mem_swap", "bumpa_field", "read", "read",
                                     "read", "fresh_swap", "item_assign", "tuple_unpack", "mem_swap_arr",
                                     "total_refresh", "zs", "tuple", "wreplace", "wpoke", "wread", "winner", "tborrow", "tborrow"]))
        v = draw(st.sampled_from(["s", "t"]))
        k = draw(st.sampled_from(KEXPR))
        i = draw(st.integers(0, 1))
        r = draw(st.sampled_from(sorted(READS)))
        stmts.append([kind, v, k, i, r])
    inputs = [[draw(st.integers(-9, 9)) for _ in range(6)] for _ in range(2)]
    return {"stmts": stmts, "inputs": inputs}


def alias_class(case):
    """does the body lend a tuple whose copyable element is a bare variable, replaced by the callee?"""
    return any(s[0] == "tborrow" and TRACED.get(s[2], s[2]) in BARE for s in case["stmts"])


def render_body(case, exclude_alias=False):
    lines = ["s = R(xs, a, (a, False))", "t = R(ys, b, (b + 1, True))", "w = W(fresh(a - b), b)", "zs = array(b, a)", "acc = 0"]
    for j, (kind, v, k, i, r) in enumerate(case["stmts"]):
        o = "t" if v == "s" else "s"
        if kind == "replace":
            lines.append(f"replace({v}, {k})")
        elif kind == "poke":
            lines.append(f"poke({v}, {i}, {k})")
        elif kind == "swap2":
            lines.append(f"swap2({v}, {o})")
        elif kind == "mem_swap":
            lines.append(f"mem_swap({v}, {o})")
        elif kind == "bumpa_field":
            lines.append(f"bumpa({v}.xs, {k})")
        elif kind == "read":
            lines.append(f"acc = acc * 3 + {READS[r].format(v=v)}")
        elif kind == "fresh_swap":
            lines += [f"u{j} = fresh({k})", f"swap2(u{j}, {v})", f"acc = acc * 3 + u{j}.n + u{j}.xs[{i}] + u{j}.p[0]"]
        elif kind == "item_assign":
            lines.append(f"{v}.xs[{i}] = {k}")
        elif kind == "tuple_unpack":
            lines += [f"k{j}, _f{j} = {v}.p", f"acc = acc * 3 + k{j}"]
        elif kind == "mem_swap_arr":
            lines += [f"mem_swap(zs, {v}.xs)", f"acc = acc * 3 + zs[{i}]"]
        elif kind == "total_refresh":
            lines += [f"acc = acc * 3 + total({v})", f"{v} = fresh({k})"]
        elif kind == "zs":
            lines += [f"bumpa(zs, {k})", f"acc = acc * 3 + zs[0]"]
        elif kind == "tuple":
            lines += [f"q{j} = ({k}, {READS[r].format(v=v)})", f"acc = acc * 3 + q{j}[1] - q{j}[0]"]
        elif kind == "tborrow":
            k = TRACED.get(k, k)
            el = f"({k} + 0)" if (exclude_alias and k in BARE) else k
            lines += [f"tp{j} = (array(b, {i}), {el})", f"treplace(tp{j}, {i} + a)",
                      f"acc = acc * 3 + tp{j}[1] + tp{j}[0][1]"]
        elif kind == "wreplace":
            lines.append(f"wreplace(w, {k})")
        elif kind == "wpoke":
            lines.append(f"wpoke(w, {k})")
        elif kind == "wread":
            lines.append(f"acc = acc * 3 + w.m + {READS[r].format(v='w.r')}")
        elif kind == "winner":
            lines.append(f"replace(w.r, {k})" if i else f"swap2(w.r, {v})")
        else:
            raise ValueError(kind)
    lines.append("return (acc * 7 + s.n + 2 * s.p[0] + 3 * s.xs[0] + 4 * s.xs[1] + 5 * t.n + 6 * t.p[0] + 8 * t.xs[0] "
                 "+ 9 * t.xs[1] + 10 * w.m + 11 * w.r.n + 12 * w.r.p[0] + 13 * w.r.xs[0] + 14 * w.r.xs[1] + 15 * zs[0] + 16 * zs[1] + 17 * a + 18 * b)")
    return "".join("    " + ln + "\n" for ln in lines)


MUTATORS = {"replace", "poke", "swap2", "mem_swap", "bumpa_field", "fresh_swap", "mem_swap_arr", "wreplace", "wpoke",
            "winner", "zs", "tborrow"}
READERS = {"read", "tborrow", "tuple_unpack", "tuple", "wread", "fresh_swap", "mem_swap_arr", "total_refresh", "zs"}


def nontrivial(case):
    """a borrowing call that mutates / replaces, followed later by a read"""
    ks = [s[0] for s in case["stmts"]]
    return any(k in MUTATORS and any(k2 in READERS for k2 in ks[i + 1:]) for i, k in enumerate(ks))


def labels(case):
    return sorted({"B:" + s[0] for s in case["stmts"]})


def _lit(v):
    return str(v) if v >= 0 else f"({v})"


def program(cases, modes="gc", exclude_alias=False):
    from vlib import runner

    parts = [runner.PRELUDE, HELPERS]
    main = ["@guppy", "def main() -> None:"]
    for i, c in enumerate(cases):
        body = render_body(c, exclude_alias)
        if "g" in modes:
            parts.append(f"@guppy\ndef reg{i}{SIG}{body}\n")
        if "c" in modes:
            parts.append(f"@guppy.comptime\ndef ct{i}{SIG}{body}\n")
        for j, (x0, x1, y0, y1, a, b) in enumerate(c["inputs"]):
            args = f"array({_lit(x0)}, {_lit(x1)}), array({_lit(y0)}, {_lit(y1)}), {_lit(a)}, {_lit(b)}"
            if "g" in modes:
                main.append(f'    result("g{i}_{j}", reg{i}({args}))')
            if "c" in modes:
                main.append(f'    result("c{i}_{j}", ct{i}({args}))')
    if len(main) == 2:
        main.append("    pass")
    return "\n".join(parts) + "\n" + "\n".join(main) + "\n"


def run_cases(cases, exclude_alias=False):
    """-> (verdicts, status): verdict per case None (agree) | (bucket, detail) | 'outside' | 'unsupported'"""
    from vlib import runner

    X = exclude_alias
    out, lm = runner.run_source(program(cases, exclude_alias=X), n_qubits=1)
    if lm is not None:
        lm.dispose()
    if out.kind == "unsupported":
        return ["unsupported"] * len(cases), "ok"
    if out.kind == "ok":
        got = dict(out.stream)
        vs = []
        for i, c in enumerate(cases):
            v = None
            for j in range(len(c["inputs"])):
                g, ct = got.get(f"g{i}_{j}"), got.get(f"c{i}_{j}")
                if g is None or ct is None:
                    return None, ("error", f"missing result g{i}_{j}/c{i}_{j} in {out.stream}")
                if g != ct:
                    bucket = "body.result." + ALIAS_KEY if (alias_class(c) and not X) else "body.result"
                    v = (bucket, f"inputs {c['inputs'][j]}: @guppy -> {g}, @guppy.comptime -> {ct}\n{render_body(c, X)}")
                    break
            vs.append(v)
        return vs, "ok"
    if len(cases) > 1:
        vs = []
        for c in cases:
            v1, st1 = run_cases([c], X)
            if st1 != "ok":
                return None, st1
            vs.append(v1[0])
        return vs, "ok"
    # a single case that does not run: which mode refuses it?
    c = cases[0]
    acc = {}
    for m in "gc":
        o, lm = runner.run_source(program([c], modes=m, exclude_alias=X), n_qubits=1)
        if lm is not None:
            lm.dispose()
        acc[m] = o
    okg, okc = acc["g"].kind == "ok", acc["c"].kind == "ok"
    if okg and okc:
        return None, ("error", f"modes run separately but not together: {out.kind} {out.message[-600:]}")
    if not okg and not okc:
        return ["outside"], "ok"
    bad = "comptime" if okg else "guppy"
    o = acc["c" if okg else "g"]
    if o.kind == "panic":
        return [("body.panic." + bad, f"{bad} version panics, the other runs: {o.message[-400:]}\n{render_body(c, X)}")], "ok"
    return [(f"body.availability.{bad}_rejects", f"accepted by the other mode, refused by {bad}: {o.kind} {o.title} "
             f"{o.message[-600:]}\n{render_body(c, X)}")], "ok"
