"""pyref — the CPython reference executor (DESIGN.md 2.5).

The *same source text* that Guppy compiles is executed by CPython with a prelude that
defines `guppy` (identity decorators, `.struct` builds a plain class), `result` (records
`(tag, value)`), `array` (a list subclass with `copy`), `panic` (raises RefPanic) ...
The only transformation is: annotations are dropped and every integer arithmetic result is
reduced to 64-bit two's complement (`_w`) - the reduction the property statements state.
"""
from __future__ import annotations

import ast
import math

M64 = 1 << 64
S63 = 1 << 63


class RefPanic(Exception):
    pass


class RefExit(Exception):
    pass


class RefTooLong(Exception):
    pass


def w64(v):
    if type(v) is int:
        return ((v + S63) % M64) - S63
    if type(v) is tuple:
        return tuple(w64(x) for x in v)
    return v


class array(list):
    # Guppy arrays have no negative indexing and panic on any index outside 0 <= i < n
    def _chk(self, i):
        if isinstance(i, int) and not isinstance(i, bool) and not 0 <= i < len(self):
            raise RefPanic("Array index out of bounds")

    def __getitem__(self, i):
        self._chk(i)
        return list.__getitem__(self, i)

    def __setitem__(self, i, v):
        self._chk(i)
        list.__setitem__(self, i, v)

    def __init__(self, *args):
        if len(args) == 1 and hasattr(args[0], "__next__"):
            super().__init__(args[0])
        else:
            super().__init__(args)

    def copy(self):
        return array(*[x.copy() if isinstance(x, array) else x for x in self])

    def __class_getitem__(cls, item):
        return cls


def _mk_struct(cls):
    fields = list(getattr(cls, "__vfields__", ()))

    def __init__(self, *args):
        assert len(args) == len(fields), (cls.__name__, args)
        for f, a in zip(fields, args):
            setattr(self, f, a)

    def __eq__(self, other):
        return type(other) is type(self) and all(getattr(self, f) == getattr(other, f) for f in fields)

    def __repr__(self):
        return f"{cls.__name__}(" + ", ".join(repr(getattr(self, f)) for f in fields) + ")"

    cls.__init__ = __init__
    cls.__eq__ = __eq__
    cls.__repr__ = __repr__
    cls.__hash__ = None
    return cls


class _Guppy:
    def __call__(self, f=None, **kw):
        if f is None:
            return lambda g: g
        return f

    def struct(self, cls):
        return _mk_struct(cls)

    def comptime(self, f):
        return f

    def declare(self, f):
        return f


class _Transformer(ast.NodeTransformer):
    """drop annotations; wrap int arithmetic in _w(...)"""

    def visit_FunctionDef(self, node):
        node.returns = None
        for a in node.args.posonlyargs + node.args.args + node.args.kwonlyargs:
            a.annotation = None
        if node.args.vararg:
            node.args.vararg.annotation = None
        if node.args.kwarg:
            node.args.kwarg.annotation = None
        self.generic_visit(node)
        return node

    def visit_ClassDef(self, node):
        fields = []
        body = []
        for st in node.body:
            if isinstance(st, ast.AnnAssign) and isinstance(st.target, ast.Name):
                fields.append(st.target.id)
            else:
                body.append(self.visit(st))
        body.insert(0, ast.Assign(
            targets=[ast.Name("__vfields__", ast.Store())],
            value=ast.Tuple([ast.Constant(f) for f in fields], ast.Load())))
        node.body = body
        return node

    def visit_AnnAssign(self, node):
        self.generic_visit(node)
        if node.value is None:
            return ast.Pass()
        return ast.Assign(targets=[node.target], value=node.value)

    def _wrap(self, e):
        return ast.Call(ast.Name("_w", ast.Load()), [e], [])

    def visit_BinOp(self, node):
        self.generic_visit(node)
        if isinstance(node.op, ast.MatMult):
            return node
        return self._wrap(node)

    def visit_UnaryOp(self, node):
        self.generic_visit(node)
        if isinstance(node.op, ast.Not):
            return node
        return self._wrap(node)

    def visit_AugAssign(self, node):
        self.generic_visit(node)
        import copy

        if isinstance(node.target, ast.Subscript):
            # container and index are evaluated once, then the old element is read, then the
            # value is evaluated (Python's order)
            call = ast.Call(ast.Name("_augsub", ast.Load()),
                            [node.target.value, node.target.slice,
                             ast.Lambda(ast.arguments(posonlyargs=[], args=[], kwonlyargs=[], kw_defaults=[], defaults=[]),
                                        node.value),
                             ast.Constant(type(node.op).__name__)], [])
            return ast.Expr(call)

        load = copy.deepcopy(node.target)
        for n in ast.walk(load):
            if hasattr(n, "ctx"):
                n.ctx = ast.Load()
        load.ctx = ast.Load()
        return ast.Assign(targets=[node.target],
                          value=self._wrap(ast.BinOp(load, node.op, node.value)))

    def visit_Call(self, node):
        self.generic_visit(node)
        if isinstance(node.func, ast.Name) and node.func.id in ("abs", "pow", "divmod", "int", "round", "len"):
            return self._wrap(node)
        return node


_OPS = {"Add": lambda a, b: a + b, "Sub": lambda a, b: a - b, "Mult": lambda a, b: a * b,
        "FloorDiv": lambda a, b: a // b, "Mod": lambda a, b: a % b, "Div": lambda a, b: a / b,
        "BitAnd": lambda a, b: a & b, "BitOr": lambda a, b: a | b, "BitXor": lambda a, b: a ^ b,
        "LShift": lambda a, b: a << b, "RShift": lambda a, b: a >> b, "Pow": lambda a, b: a ** b}


def _augsub(container, index, value_thunk, op):
    old = container[index]
    container[index] = w64(_OPS[op](old, value_thunk()))


def norm(v):
    if isinstance(v, bool):
        return int(v)
    if isinstance(v, (list, tuple)):
        return [norm(x) for x in v]
    return v


def run_ref(src: str, entry: str = "main", max_results: int = 2000, extra_env: dict | None = None):
    """Execute `src` (generated body WITHOUT the guppy import prelude) under CPython.
    -> (stream, panic_message_or_None). Raises RefTooLong / any generator-bug exception."""
    tree = ast.parse(src)
    tree = _Transformer().visit(tree)
    ast.fix_missing_locations(tree)
    stream = []

    def result(tag, value):
        if len(stream) >= max_results:
            raise RefTooLong()
        stream.append((tag, norm(value)))

    def panic(msg, *args):
        raise RefPanic(msg)

    def exit_(msg, code, *args):
        raise RefExit((msg, code))

    env = {
        "guppy": _Guppy(),
        "result": result,
        "array": array,
        "panic": panic,
        "exit": exit_,
        "_w": w64,
        "_augsub": _augsub,
        "owned": None,
        "nat": int,
        "comptime": lambda x: x,
        "py": lambda x: x,
        "__name__": "pyref_mod",
        # qubits in the |0> state only (C05's mz helper): measuring a fresh qubit gives False
        "qubit": lambda: object(),
        "measure": lambda q: False,
        "discard": lambda q: None,
    }
    if extra_env:
        env.update(extra_env)
    code = compile(tree, "<pyref>", "exec")
    exec(code, env)
    try:
        env[entry]()
    except RefPanic as e:
        return stream, str(e.args[0])
    return stream, None


def values_equal(a, b, float_tol_ulps=0):
    """bit-exact comparison of result values (NaN == NaN; -0.0 != 0.0 is NOT distinguished
    because the result stream prints floats through JSON: compared with ==)."""
    if isinstance(a, list) and isinstance(b, list):
        return len(a) == len(b) and all(values_equal(x, y, float_tol_ulps) for x, y in zip(a, b))
    if isinstance(a, float) or isinstance(b, float):
        if isinstance(a, bool) or isinstance(b, bool):
            return False
        try:
            fa, fb = float(a), float(b)
        except (TypeError, ValueError, OverflowError):
            return False
        if math.isnan(fa) and math.isnan(fb):
            return True
        if fa == fb:
            return True
        if float_tol_ulps and math.isfinite(fa) and math.isfinite(fb):
            return abs(fa - fb) <= float_tol_ulps * math.ulp(max(abs(fa), abs(fb)))
        return False
    return a == b and type(a) is type(b)


def streams_equal(s1, s2):
    if len(s1) != len(s2):
        return False
    return all(t1 == t2 and values_equal(v1, v2) for (t1, v1), (t2, v2) in zip(s1, s2))


def first_diff(s1, s2):
    for i, (a, b) in enumerate(zip(s1, s2)):
        if a[0] != b[0] or not values_equal(a[1], b[1]):
            return i, a, b
    if len(s1) != len(s2):
        i = min(len(s1), len(s2))
        return i, (s1[i] if i < len(s1) else None), (s2[i] if i < len(s2) else None)
    return None
