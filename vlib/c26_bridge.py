"""C26 third-party bridge: symbolic parameters of converted pytket circuits.

/repo (guppylang 0.21.6, written against tket-py 0.12) hands the symbolic parameters of a
loaded pytket circuit to the converted circuit function as `float64` half-turns. The tket-py
installed in /venv (0.15.x) declares those inputs as `tket.rotation.rotation` instead, so every
parametrised circuit would fail `hugr validate` ("Cannot connect float64 to rotation") for a
reason that is not guppylang behaviour (same kind of gap as DESIGN.md 1.2).

`install()` wraps the `tket.circuit.Tk2Circuit` shim of /verif/compat (third-party side, nothing
of /repo is touched): in the function produced by the conversion every `rotation` *input* becomes
a `float64` input followed by `tket.rotation.from_halfturns_unchecked` - i.e. the function gets
exactly the interface tket-py 0.12 produced. Order of inputs/outputs, metadata
(`TKET1.input_parameters`, registers) and all operations stay as converted.
"""
from __future__ import annotations


def _is_rotation(t) -> bool:
    return getattr(t, "id", None) == "rotation" or (
        getattr(getattr(t, "type_def", None), "name", None) == "rotation")


def floatify(h):
    """Rewrite the entrypoint function of Hugr `h` in place. -> number of rewritten inputs."""
    import tket_exts
    from hugr import ops
    from hugr import tys as ht
    from hugr.std.float import FLOAT_T

    ep = h.entrypoint
    fd = h[ep].op
    if not isinstance(fd, ops.FuncDefn):
        return 0
    kids = h.children(ep)
    inp = next(k for k in kids if isinstance(h[k].op, ops.Input))
    iop = h[inp].op
    rot_ext = tket_exts.rotation()
    rot_t = None
    n = 0
    for i, t in enumerate(list(fd.inputs)):
        if not _is_rotation(t):
            continue
        if rot_t is None:
            rot_t = ht.ExtType(rot_ext.get_type("rotation"))
        targets = list(h.linked_ports(inp.out(i)))
        for tp in targets:
            h.delete_link(inp.out(i), tp)
        fd.inputs[i] = FLOAT_T
        iop.types[i] = FLOAT_T
        conv = h.add_node(
            ops.ExtOp(rot_ext.get_op("from_halfturns_unchecked"), ht.FunctionType([FLOAT_T], [rot_t])),
            parent=ep, num_outs=1)
        h.add_link(inp.out(i), conv.inp(0))
        for tp in targets:
            h.add_link(conv.out(0), tp)
        n += 1
    return n


def install():
    """Idempotent. compat.install() must have run (it provides tket.circuit.Tk2Circuit)."""
    import tket.circuit as tc

    cls = tc.Tk2Circuit
    if getattr(cls, "_verif_c26", False):
        return
    orig = cls.to_bytes

    def to_bytes(self, config):
        from hugr import envelope
        from hugr.package import Package

        raw = orig(self, config)
        pkg = envelope.read_envelope(raw)
        if not any(_is_rotation(t) for t in getattr(pkg.modules[0][pkg.modules[0].entrypoint].op, "inputs", [])):
            return raw
        floatify(pkg.modules[0])
        return Package(pkg.modules, pkg.extensions).to_bytes(config)

    cls.to_bytes = to_bytes
    cls._verif_c26 = True
