"""nsim - dense numpy reference simulator for C20 (oracle side, no guppylang import).

Every matrix below is transcribed from the *docstring* of the corresponding function in
`guppylang.std.quantum` / `guppylang.std.qsystem` (or, where the docstring gives none, from
the textbook definition named there), never from the compiler or the emulator:

* a docstring matrix of a k-qubit gate with "Qubit ordering: [a, b, ...]" is indexed by the
  bit string `a b ...` read as a binary number (first listed qubit = most significant bit);
  the CX matrix of the docstring (|10> <-> |11>) fixes that reading;
* `angle` is documented as "a rotation by a number of half-turns", `pi` is one half-turn, so
  a gate docstring's theta is `halfturns * math.pi`;
* measurement / project_z / reset are projective Z-basis operations (property statement).

State layout: ndarray of shape (2,)*n, axis i = qubit i of the circuit.
"""
from __future__ import annotations

import cmath
import math

import numpy as np

TOL = 1e-9  # stated tolerance of C20: max-abs amplitude / density-matrix element difference
P_MIN = 1e-9  # a recorded outcome whose oracle probability is below this is "impossible"

_R2 = 1.0 / math.sqrt(2.0)
_I = 1j


def _m(rows):
    return np.array(rows, dtype=np.complex128)


# ---------------------------------------------------------------- fixed gates (docstrings)
H = _R2 * _m([[1, 1], [1, -1]])
X = _m([[0, 1], [1, 0]])
Y = _m([[0, -_I], [_I, 0]])
Z = _m([[1, 0], [0, -1]])
S = _m([[1, 0], [0, _I]])
SDG = _m([[1, 0], [0, -_I]])
T = _m([[1, 0], [0, cmath.exp(_I * math.pi / 4)]])
TDG = _m([[1, 0], [0, cmath.exp(-_I * math.pi / 4)]])
V = _R2 * _m([[1, -_I], [-_I, 1]])
VDG = _R2 * _m([[1, _I], [_I, 1]])

CZ = _m([[1, 0, 0, 0], [0, 1, 0, 0], [0, 0, 1, 0], [0, 0, 0, -1]])
CY = _m([[1, 0, 0, 0], [0, 1, 0, 0], [0, 0, 0, -_I], [0, 0, _I, 0]])
CX = _m([[1, 0, 0, 0], [0, 1, 0, 0], [0, 0, 0, 1], [0, 0, 1, 0]])
# docstring: CH = 1/sqrt2 * (...) with the upper-left block printed as 1,1 under the common
# factor; the name "Controlled-H" fixes the reading: identity on control=0, H on control=1.
CH = _m([[1, 0, 0, 0], [0, 1, 0, 0], [0, 0, _R2, _R2], [0, 0, _R2, -_R2]])
TOFFOLI = np.eye(8, dtype=np.complex128)
TOFFOLI[6, 6] = TOFFOLI[7, 7] = 0
TOFFOLI[6, 7] = TOFFOLI[7, 6] = 1
ZZMAX = np.diag([cmath.exp(-_I * math.pi / 4), cmath.exp(_I * math.pi / 4),
                 cmath.exp(_I * math.pi / 4), cmath.exp(-_I * math.pi / 4)])


# ---------------------------------------------------------------- parametrised (theta in radians)
def theta(halfturns: float) -> float:
    return halfturns * math.pi


def rz(th):
    return _m([[cmath.exp(-0.5j * th), 0], [0, cmath.exp(0.5j * th)]])


def rx(th):
    c, s = math.cos(th / 2), math.sin(th / 2)
    return _m([[c, -_I * s], [-_I * s, c]])


def ry(th):
    c, s = math.cos(th / 2), math.sin(th / 2)
    return _m([[c, -s], [s, c]])


def crz(th):
    return np.diag([1, 1, cmath.exp(-0.5j * th), cmath.exp(0.5j * th)]).astype(np.complex128)


def phased_x(t1, t2):
    c, s = math.cos(t1 / 2), math.sin(t1 / 2)
    return _m([[c, -_I * cmath.exp(-_I * t2) * s], [-_I * cmath.exp(_I * t2) * s, c]])


def zz_phase(th):
    a, b = cmath.exp(-0.5j * th), cmath.exp(0.5j * th)
    return np.diag([a, b, b, a]).astype(np.complex128)


FIXED = {"h": H, "x": X, "y": Y, "z": Z, "s": S, "sdg": SDG, "t": T, "tdg": TDG, "v": V,
         "vdg": VDG, "cx": CX, "cy": CY, "cz": CZ, "ch": CH, "toffoli": TOFFOLI,
         "zz_max": ZZMAX}
PARAM = {"rz": rz, "rx": rx, "ry": ry, "crz": crz, "phased_x": phased_x, "zz_phase": zz_phase}
ARITY = {"h": 1, "x": 1, "y": 1, "z": 1, "s": 1, "sdg": 1, "t": 1, "tdg": 1, "v": 1, "vdg": 1,
         "rz": 1, "rx": 1, "ry": 1, "phased_x": 1, "cx": 2, "cy": 2, "cz": 2, "ch": 2, "crz": 2,
         "zz_max": 2, "zz_phase": 2, "toffoli": 3}
NPARAM = {"rz": 1, "rx": 1, "ry": 1, "crz": 1, "zz_phase": 1, "phased_x": 2}


def matrix(gate: str, halfturns=()):
    """Documented matrix of `gate`; `halfturns` = its angle arguments in half-turns."""
    if gate in FIXED:
        return FIXED[gate]
    return PARAM[gate](*[theta(a) for a in halfturns])


def selfcheck():
    """Unitarity + the identities the docstrings themselves state."""
    for g, m in FIXED.items():
        assert np.allclose(m @ m.conj().T, np.eye(len(m))), g
    for g, f in PARAM.items():
        m = f(*([0.7, -1.3][: NPARAM[g]]))
        assert np.allclose(m @ m.conj().T, np.eye(len(m))), g
    assert np.allclose(S @ SDG, np.eye(2)) and np.allclose(T @ TDG, np.eye(2))
    assert np.allclose(V @ VDG, np.eye(2)) and np.allclose(T @ T, S)
    # phased_x docstring: Rz(t2) Rx(t1) Rz(-t2)
    assert np.allclose(phased_x(0.7, -1.3), rz(-1.3) @ rx(0.7) @ rz(1.3))
    # zz_max docstring: zz_phase at pi/2 ; rz docstring: exp(-i theta/2 Z)
    assert np.allclose(ZZMAX, zz_phase(math.pi / 2))
    assert np.allclose(zz_phase(0.9), np.diag(np.exp(-0.45j * np.kron(np.diag(Z), np.diag(Z)))))
    return True


# ---------------------------------------------------------------- state operations
def zero_state(n: int) -> np.ndarray:
    st = np.zeros((2,) * n, dtype=np.complex128)
    st[(0,) * n] = 1.0
    return st


def apply(state: np.ndarray, u: np.ndarray, qubits) -> np.ndarray:
    """Apply the k-qubit matrix `u` (row/col index = bits of qubits[0] qubits[1] ... with
    qubits[0] most significant) to the listed axes."""
    k = len(qubits)
    assert len(set(qubits)) == k and u.shape == (2**k, 2**k)
    ut = u.reshape((2,) * (2 * k))
    out = np.tensordot(ut, state, axes=(list(range(k, 2 * k)), list(qubits)))
    # result axes: the k output axes first, then the remaining axes in original order
    return np.moveaxis(out, list(range(k)), list(qubits))


def prob(state: np.ndarray, q: int, outcome: int) -> float:
    sl = np.take(state, outcome, axis=q)
    return float(np.sum(np.abs(sl) ** 2))


def project(state: np.ndarray, q: int, outcome: int):
    """-> (probability, normalised projection onto Z-eigenvalue `outcome` of qubit q) ;
    the state is None when the probability is (numerically) zero."""
    p = prob(state, q, outcome)
    if p <= 0.0:
        return 0.0, None
    idx = [slice(None)] * state.ndim
    idx[q] = 1 - outcome
    new = state.copy()
    new[tuple(idx)] = 0
    return p, new / math.sqrt(p)


def reduced_density(state: np.ndarray, order, msb_first=True) -> np.ndarray:
    """Density matrix of the listed qubits (all others traced out). Basis index = bits of
    order[0] order[1] ... with order[0] most significant (or least, if not msb_first)."""
    order = list(order)
    if not msb_first:
        order = order[::-1]
    n = state.ndim
    rest = [i for i in range(n) if i not in order]
    m = np.transpose(state, order + rest).reshape(2 ** len(order), 2 ** len(rest))
    return m @ m.conj().T


def density_of(dist) -> np.ndarray:
    """sum_i p_i |v_i><v_i| of an observed distribution [(p, vector)]."""
    d = len(dist[0][1])
    rho = np.zeros((d, d), dtype=np.complex128)
    for p, v in dist:
        v = np.asarray(v, dtype=np.complex128)
        nv = np.linalg.norm(v)
        if nv > 0:
            v = v / nv
        rho += p * np.outer(v, v.conj())
    return rho


def pure_vector(rho: np.ndarray):
    """If rho is (numerically) pure return its state vector (arbitrary phase), else None."""
    if abs(np.trace(rho @ rho).real - 1.0) > 1e-10:
        return None
    w, vec = np.linalg.eigh(rho)
    return vec[:, -1]


def phase_distance(a, b) -> float:
    """min over global phase of max |a - e^{i phi} b| (phase taken from the inner product)."""
    a = np.asarray(a, dtype=np.complex128)
    b = np.asarray(b, dtype=np.complex128)
    ov = np.vdot(b, a)
    ph = ov / abs(ov) if abs(ov) > 1e-300 else 1.0
    return float(np.max(np.abs(a - ph * b)))
