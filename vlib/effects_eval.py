"""Differential evaluation of a GenEffects program: emulator result stream vs CPython (vlib.pyref)."""


def evaluate(src):
    from vlib import pyref, runner

    try:
        ref, pan = pyref.run_ref(src)
    except pyref.RefTooLong:
        return "toolong", None, None
    except BaseException as e:  # noqa: BLE001
        return "generr", None, f"pyref raised {e!r}"
    out, lm = runner.run_source(runner.PRELUDE + src, n_qubits=4)
    if lm is not None:
        lm.dispose()
    if out.kind in ("rejected", "crash", "invalid"):
        return "outside", f"{out.kind}:{out.title}", out.message[-1500:]
    if out.kind == "unsupported":
        return "unsupported", out.title, out.message[:300]
    if out.kind == "timeout":
        # CPython finished this program within pyref's step bound; an emulator run that is still going after
        # the (generous) limit is confirmed once on a fresh build before it is reported
        out2, lm2 = runner.run_source(runner.PRELUDE + src, n_qubits=4)
        if lm2 is not None:
            lm2.dispose()
        if out2.kind == "timeout":
            return "mismatch", "nontermination", (f"{out.message}; results so far {out.stream[-5:]}; Python finished with "
                                                  f"{len(ref)} results")
        out = out2
        if out.kind in ("rejected", "crash", "invalid", "unsupported"):
            return "unsupported", "unstable:" + out.kind, out.message[:300]
    got_pan = out.message if out.kind == "panic" else None
    if (got_pan is None) != (pan is None):
        return "mismatch", "panic", f"panic: emulator {got_pan!r} vs Python {pan!r}; streams {out.stream} / {ref}"
    if pan is not None and pan not in got_pan:
        return "mismatch", "panic.message", f"{got_pan!r} vs {pan!r}"
    if not pyref.streams_equal(out.stream, ref):
        i, a, b = pyref.first_diff(out.stream, ref)
        kind = "count" if sorted(map(str, out.stream)) != sorted(map(str, ref)) else "order"
        return "mismatch", kind, f"result #{i}: emulator {a} vs Python {b}\n emulator: {out.stream}\n python:   {ref}"
    return "ok", None, None
