"""Running generated Guppy source through /repo's compiler, the hugr validator and the
selene emulator (DESIGN.md 2.6).  compat.install() must have been called."""
from __future__ import annotations

import contextlib
import io
import itertools
import linecache
import os
import shutil
import sys
import tempfile
import traceback
import types
from dataclasses import dataclass, field

_counter = itertools.count()

PRELUDE = """from guppylang import guppy
from guppylang.std.builtins import *
from guppylang.std.builtins import result, array, owned, comptime, nat, panic, exit
from guppylang.std.quantum import qubit, measure, discard, reset, project_z
"""


@dataclass
class Outcome:
    kind: str  # ok | panic | rejected | crash | unsupported | invalid
    stream: list = field(default_factory=list)  # [(tag, value)]
    message: str = ""  # panic message / rendered diagnostic / traceback
    exc: BaseException | None = None
    title: str = ""  # diagnostic title for rejected
    extra: dict = field(default_factory=dict)

    def brief(self):
        if self.kind in ("ok",):
            return f"ok {self.stream}"
        if self.kind == "panic":
            return f"panic({self.message!r}) after {self.stream}"
        return f"{self.kind}: {self.title or self.message[:300]}"


class LoadedModule:
    def __init__(self, mod, name, file, src):
        self.mod, self.name, self.file, self.src = mod, name, file, src

    def __getattr__(self, k):
        return getattr(self.mod, k)

    def dispose(self):
        sys.modules.pop(self.name, None)
        linecache.cache.pop(self.file, None)


def load_module(src: str, name: str | None = None, extra_globals: dict | None = None) -> LoadedModule:
    """Execute `src` as a real module object so that inspect/linecache work like for a
    user file (functions *and* @guppy.struct classes)."""
    n = next(_counter)
    name = name or f"vmod_{os.getpid()}_{n}"
    fn = f"/verifgen/{name}.py"
    m = types.ModuleType(name)
    m.__file__ = fn
    sys.modules[name] = m
    linecache.cache[fn] = (len(src), None, src.splitlines(True), fn)
    if extra_globals:
        m.__dict__.update(extra_globals)
    code = compile(src, fn, "exec")
    exec(code, m.__dict__)
    return LoadedModule(m, name, fn, src)


def guppy_error_types():
    from guppylang_internals.error import GuppyError

    return GuppyError


def render_error(err) -> str:
    """Render a GuppyError's diagnostic the way pretty_errors would (may raise: that is
    part of what C02 checks)."""
    from guppylang_internals.diagnostic import DiagnosticsRenderer
    from guppylang_internals.engine import DEF_STORE

    r = DiagnosticsRenderer(DEF_STORE.sources)
    r.render_diagnostic(err.error)
    return "\n".join(r.buffer)


@contextlib.contextmanager
def quiet():
    """Silence stderr prints of pretty_errors / the validator at fd level."""
    sys.stderr.flush()
    old = os.dup(2)
    dn = os.open(os.devnull, os.O_WRONLY)
    os.dup2(dn, 2)
    try:
        yield
    finally:
        sys.stderr.flush()
        os.dup2(old, 2)
        os.close(old)
        os.close(dn)


def classify_exception(e) -> Outcome:
    from guppylang_internals.error import GuppyError

    if isinstance(e, GuppyError):
        try:
            msg = render_error(e)
        except Exception as e2:  # noqa: BLE001
            msg = f"<render failed: {e2!r}>"
        return Outcome("rejected", message=msg, exc=e, title=getattr(e.error, "rendered_title", "") or "")
    tb = "".join(traceback.format_exception(type(e), e, e.__traceback__))
    return Outcome("crash", message=tb[-4000:], exc=e, title=type(e).__name__)


def crash_bucket(e) -> str:
    """(exception type, innermost guppylang frame) root-cause signature."""
    tb = traceback.extract_tb(e.__traceback__)
    inner = None
    for fr in tb:
        if "guppylang" in fr.filename and "/verif/" not in fr.filename:
            inner = fr
    where = f"{os.path.basename(inner.filename)}:{inner.name}" if inner else "?"
    return f"{type(e).__name__}@{where}"


def check_def(defn) -> Outcome:
    try:
        defn.check()
    except BaseException as e:  # noqa: BLE001
        if isinstance(e, (KeyboardInterrupt, SystemExit)):
            raise
        return classify_exception(e)
    return Outcome("ok")


def compile_def(defn, entry=True):
    """-> (Outcome, package|None)"""
    try:
        pkg = defn.compile() if entry else defn.compile_function()
    except BaseException as e:  # noqa: BLE001
        if isinstance(e, (KeyboardInterrupt, SystemExit)):
            raise
        return classify_exception(e), None
    return Outcome("ok"), pkg


def validate_pkg(pkg) -> Outcome:
    import compat

    try:
        with quiet():
            compat.validate(pkg)
    except BaseException as e:  # noqa: BLE001
        if isinstance(e, (KeyboardInterrupt, SystemExit)):
            raise
        return Outcome("invalid", message=str(e)[:3000], exc=e, title="hugr validate")
    return Outcome("ok")


_build_root = None


def build_dir():
    global _build_root
    if _build_root is None:
        base = os.environ.get("VERIF_WORK") or os.path.join(
            os.path.dirname(os.path.dirname(os.path.abspath(__file__))), ".work")
        os.makedirs(base, exist_ok=True)
        _build_root = tempfile.mkdtemp(prefix=f"sel{os.getpid()}_", dir=base)
        import atexit

        atexit.register(lambda: shutil.rmtree(_build_root, ignore_errors=True))
    return _build_root


BUILD_SLOTS = int(os.environ.get("VERIF_BUILD_SLOTS", "6"))


@contextlib.contextmanager
def build_slot():
    """Machine-wide semaphore for selene builds: measured throughput of concurrent zig
    invocations peaks at ~4-6 and drops beyond (16 at once are slower in total than 4)."""
    import fcntl
    import time

    d = os.path.join(os.path.dirname(os.path.dirname(os.path.abspath(__file__))), ".work", "slots")
    os.makedirs(d, exist_ok=True)
    fds = []
    try:
        held = None
        start = os.getpid() % BUILD_SLOTS
        while held is None:
            for k in range(BUILD_SLOTS):
                i = (start + k) % BUILD_SLOTS
                fd = os.open(os.path.join(d, f"s{i}"), os.O_CREAT | os.O_RDWR)
                try:
                    fcntl.flock(fd, fcntl.LOCK_EX | fcntl.LOCK_NB)
                    held = fd
                    break
                except OSError:
                    os.close(fd)
            if held is None:
                time.sleep(0.03)
        yield
    finally:
        if held is not None:
            try:
                fcntl.flock(held, fcntl.LOCK_UN)
            finally:
                os.close(held)


def norm_value(v):
    """Result values as plain Python (bools -> 0/1 as the stream reports them)."""
    if isinstance(v, bool):
        return int(v)
    if isinstance(v, (list, tuple)):
        return [norm_value(x) for x in v]
    return v


def emulate_pkg(pkg, n_qubits=0, seed=1, shots=1, sim="statevector"):
    """Build with selene (lowered copy, compat) and run. -> Outcome"""
    from pathlib import Path

    from guppylang.emulator import EmulatorBuilder
    from guppylang.emulator.exceptions import EmulatorError

    d = tempfile.mkdtemp(prefix="b", dir=build_dir())
    try:
        try:
            with quiet():
                inst = EmulatorBuilder().with_build_dir(Path(d)).build(pkg, n_qubits=max(1, n_qubits))
        except BaseException as e:  # noqa: BLE001
            if isinstance(e, (KeyboardInterrupt, SystemExit)):
                raise
            return Outcome("unsupported", message=f"selene build failed: {str(e)[:1500]}", exc=e,
                           title="selene-build")
        inst = inst.with_seed(seed).with_shots(shots)
        # a run that does not end is cut off (kind "timeout"); the limit only covers the execution of the
        # built program (normally milliseconds), so it is two orders of magnitude above a loaded machine
        run_limit = float(os.environ.get("VERIF_RUN_TIMEOUT", "60"))
        if run_limit > 0:
            import datetime

            inst = inst.with_timeout(datetime.timedelta(seconds=run_limit))
        if sim == "stabilizer":
            inst = inst.stabilizer_sim()
        try:
            with quiet():
                res = inst.run()
        except EmulatorError as e:
            stream = []
            if e.failing_shot is not None:
                stream = [(t, norm_value(v)) for t, v in e.failing_shot.entries]
            under = e.underlying_exception
            if type(under).__name__ == "SeleneTimeoutError":
                return Outcome("timeout", stream=stream, message=f"emulator run exceeded {run_limit:.0f}s: {str(under)[:300]}",
                               exc=e, title="selene-timeout")
            if "Panic (#" not in str(under) and type(under).__name__ != "SelenePanicError":
                return Outcome("unsupported", message=f"emulator error (not a program panic): {str(under)[:1500]}",
                               exc=e, title="selene-run")
            return Outcome("panic", stream=stream, message=str(under).split("\n")[0], exc=e,
                           extra={"completed": [[(t, norm_value(v)) for t, v in s.entries]
                                                for s in e.completed_shots.results]})
        except BaseException as e:  # noqa: BLE001
            if isinstance(e, (KeyboardInterrupt, SystemExit)):
                raise
            return Outcome("unsupported", message=f"selene run failed: {e!r}"[:1500], exc=e,
                           title="selene-run")
        shots_out = [[(t, norm_value(v)) for t, v in s.entries] for s in res.results]
        return Outcome("ok", stream=shots_out[0] if shots == 1 else shots_out, extra={"shots": shots_out})
    finally:
        shutil.rmtree(d, ignore_errors=True)


def run_source(src, entry="main", n_qubits=0, seed=1, validate=True, emulate=True, name=None):
    """Full pipeline on generated source. Returns (Outcome, LoadedModule|None)."""
    try:
        lm = load_module(src, name)
    except SyntaxError as e:
        return Outcome("crash", message=f"generator produced invalid python: {e}", title="SyntaxError-gen"), None
    except BaseException as e:  # noqa: BLE001
        if isinstance(e, (KeyboardInterrupt, SystemExit)):
            raise
        # decorators run at import: a GuppyError here is a rejection
        return classify_exception(e), None
    defn = getattr(lm.mod, entry)
    out, pkg = compile_def(defn)
    if out.kind != "ok":
        return out, lm
    if validate:
        v = validate_pkg(pkg)
        if v.kind != "ok":
            return v, lm
    if not emulate:
        out.extra["pkg"] = pkg
        return out, lm
    o = emulate_pkg(pkg, n_qubits=n_qubits, seed=seed)
    return o, lm
