"""scopemodel — path-based reference model for C08 (use-before-definition and
path-dependent types).

The model is written from the property statement only.  It takes the *source text* of one
GenScope function (the very text handed to the compiler), parses it with CPython's `ast`
and builds its own control-flow graph: one node per simple statement / condition, edges =
the successor relation of statements.  It never looks at Guppy's CFG, basic blocks or
dataflow fixpoints; "reaching" is decided by explicit graph search (backward search in
the product graph (node, variable), so that `y = x` copies are followed).

Three path universes are kept (all derived from the same node set):

* ``G_all``  – the statement's reading ("branch condition values are ignored"): both
  outcomes of every condition are possible, literal or not; `return/break/continue`
  jump.  Code that no G_all path reaches ("dead") is never rejected.       -> verdict A
* ``G_lit``  – as G_all but a literal `True`/`False` condition only has its real outcome.
  A problem that exists along G_lit paths at a read that G_lit reaches exists under every
  reading of the statement.                                              -> lower bound
* ``G_may``  – G_all plus "fall-through" edges out of statements that cannot complete
  normally (jump -> next sibling; an `if` whose branches all jump: condition -> next
  sibling), without edges from dead code back into live code.  A rejection that is not
  explained even by a G_may path is wrong under every reading.           -> upper bound

Supported fragment (anything else raises ModelError = generator outside the domain):
  x = <int|bool|float literal> | x = y | result("..", x) | pass | return | break | continue
  if/elif/else, while, for <name> in range(<int>)   with tests  <name> | True | False
  nested `def g() -> None:` whose body only reads (result / if-guarded result).
"""
from __future__ import annotations

import ast
from dataclasses import dataclass, field

UNDEF = "<undef>"
ND = "Variable not defined"
DT = "Different types"


class ModelError(Exception):
    pass


@dataclass
class Node:
    idx: int
    kind: str  # start exit asg cpy rd pass ret brk cnt if while for fortarget def join
    line: int = 0
    assign: tuple | None = None  # (var, "lit", ty) | (var, "copy", src)
    reads: list = field(default_factory=list)  # variable names read (before the assignment)
    succ: list = field(default_factory=list)  # G_all
    succ_lit: list | None = None  # G_lit (None = same as succ)
    skip: list = field(default_factory=list)  # extra fall-through edges of G_may
    loop_depth: int = 0
    lit: bool | None = None  # literal condition value
    lines: tuple = ()  # all source lines belonging to this node (nested def bodies)


@dataclass
class Read:
    node: int
    var: str
    line: int
    kind: str  # result | copy | cond | nested_def
    live_all: bool = True
    live_lit: bool = True
    loop_depth: int = 0
    after_loop: bool = False
    tyA: frozenset = frozenset()  # reaching types along G_all (empty if dead)
    tyL: frozenset = frozenset()  # along G_lit (empty if not reached by G_lit)
    tyM: frozenset = frozenset()  # along G_may

    def shape(self):
        if not self.live_all:
            return "unreachable_code"
        if not self.live_lit:
            return "literal_false_branch"
        if self.kind == "nested_def":
            return "nested_def"
        if self.loop_depth:
            return "loop"
        if self.after_loop:
            return "after_loop"
        return "branch"


def _undef(t):
    return UNDEF in t


def _mist(t):
    return len(set(t) - {UNDEF}) >= 2


class Model:
    def __init__(self, src: str):
        self.src = src
        tree = ast.parse(src)
        fns = [n for n in tree.body if isinstance(n, ast.FunctionDef)]
        if len(fns) != 1:
            raise ModelError("expected exactly one top-level function")
        self.fn = fns[0]
        self.params = {a.arg for a in self.fn.args.args}
        self.nodes: list[Node] = []
        self.reads: list[Read] = []
        self.features = {"loops": 0, "ifs": 0, "for": 0, "while": 0, "brk": 0, "cnt": 0, "ret": 0,
                         "lit_cond": 0, "while_true": 0, "var_cond": 0, "nested_def": 0, "elif": 0,
                         "max_depth": 0, "stmts": 0}
        self._loops_seen = 0
        self.start = self._new("start")
        self.exit = self._new("exit")
        first = self._seq(self.fn.body, self.exit.idx, None, 0, 0, False)
        self.start.succ = [first]
        self._finish()

    # ------------------------------------------------------------------ construction
    def _new(self, kind, line=0, **kw):
        n = Node(len(self.nodes), kind, line, **kw)
        n.lines = (line,)
        self.nodes.append(n)
        return n

    def _read(self, node, var, kind, line=None):
        if var in self.params:
            return
        node.reads.append(var)
        self.reads.append(Read(node.idx, var, line or node.line, kind, loop_depth=node.loop_depth,
                               after_loop=self._loops_seen > 0))

    @staticmethod
    def completes(stmts):
        """Can control fall off the end of this statement list (G_all reading)?"""
        return all(Model.completes1(s) for s in stmts)

    @staticmethod
    def completes1(s):
        if isinstance(s, ast.Return | ast.Break | ast.Continue):
            return False
        if isinstance(s, ast.If):
            return Model.completes(s.body) or not s.orelse or Model.completes(s.orelse)
        return True

    def _seq(self, stmts, nxt, loop, ld, depth, in_def):
        """Build the nodes of a statement list whose continuation is node `nxt`; returns
        the entry node id.  `loop` = (continue target, break target) or None."""
        # The after_loop flag of reads needs source order, so build forwards with
        # placeholder joins: each statement gets a 'join' continuation node first.
        conts = []
        for i in range(len(stmts)):
            if i + 1 < len(stmts):
                conts.append(self._new("join", getattr(stmts[i + 1], "lineno", 0)).idx)
            else:
                conts.append(nxt)
        entry = None
        prev_join = None
        for i, s in enumerate(stmts):
            sibling = conts[i] if i + 1 < len(stmts) else None
            e = self._stmt(s, conts[i], sibling, loop, ld, depth, in_def)
            if prev_join is not None:
                self.nodes[prev_join].succ = [e]
            else:
                entry = e
            prev_join = conts[i] if i + 1 < len(stmts) else None
        if entry is None:
            raise ModelError("empty block")
        return entry

    def _cond(self, node, test):
        if isinstance(test, ast.Constant) and isinstance(test.value, bool):
            node.lit = test.value
            self.features["lit_cond"] += 1
        elif isinstance(test, ast.Name):
            if test.id not in self.params:
                self.features["var_cond"] += 1
            self._read(node, test.id, "cond")
        else:
            raise ModelError(f"unsupported condition {ast.dump(test)}")

    def _stmt(self, s, nxt, sibling, loop, ld, depth, in_def):
        F = self.features
        F["stmts"] += 1
        F["max_depth"] = max(F["max_depth"], depth)
        ln = s.lineno
        if isinstance(s, ast.AnnAssign) and s.value is not None and isinstance(s.target, ast.Name):
            # `x: T = v` scopes exactly like `x = v` (the generator keeps T equal to v's type)
            s = ast.copy_location(ast.Assign(targets=[s.target], value=s.value), s)
        if isinstance(s, ast.Assign):
            if len(s.targets) != 1 or not isinstance(s.targets[0], ast.Name):
                raise ModelError("unsupported assignment target")
            tgt = s.targets[0].id
            if tgt in self.params:
                raise ModelError("assignment to a parameter")
            v = s.value
            if isinstance(v, ast.Constant) and type(v.value) in (int, bool, float):
                n = self._new("asg", ln, loop_depth=ld)
                n.assign = (tgt, "lit", type(v.value).__name__)
            elif isinstance(v, ast.Name):
                n = self._new("cpy", ln, loop_depth=ld)
                self._read(n, v.id, "copy")
                n.assign = (tgt, "copy", v.id)
            else:
                raise ModelError("unsupported assignment value")
            n.succ = [nxt]
            return n.idx
        if isinstance(s, ast.Expr):
            c = s.value
            if isinstance(c, ast.Name):  # bare-name expression statement: a read
                n = self._new("rd", ln, loop_depth=ld)
                self._read(n, c.id, "result")
                n.succ = [nxt]
                return n.idx
            if (isinstance(c, ast.Call) and isinstance(c.func, ast.Name) and c.func.id == "result"
                    and len(c.args) == 2 and isinstance(c.args[1], ast.Name)):
                n = self._new("rd", ln, loop_depth=ld)
                self._read(n, c.args[1].id, "result")
                n.succ = [nxt]
                return n.idx
            raise ModelError("unsupported expression statement")
        if isinstance(s, ast.Pass):
            n = self._new("pass", ln, loop_depth=ld)
            n.succ = [nxt]
            return n.idx
        if isinstance(s, ast.Return):
            if s.value is not None:
                raise ModelError("return with value")
            F["ret"] += 1
            n = self._new("ret", ln, loop_depth=ld)
            n.succ = [self.exit.idx]
        elif isinstance(s, ast.Break | ast.Continue):
            if loop is None:
                raise ModelError("break/continue outside loop")
            brk = isinstance(s, ast.Break)
            F["brk" if brk else "cnt"] += 1
            n = self._new("brk" if brk else "cnt", ln, loop_depth=ld)
            n.succ = [loop[1] if brk else loop[0]]
        else:
            n = None
        if n is not None:  # a jump
            if sibling is not None:
                n.skip = [sibling]
            return n.idx
        if isinstance(s, ast.If):
            F["ifs"] += 1
            n = self._new("if", ln, loop_depth=ld)
            self._cond(n, s.test)
            then = self._seq(s.body, nxt, loop, ld, depth + 1, in_def)
            if s.orelse:
                if len(s.orelse) == 1 and isinstance(s.orelse[0], ast.If) and \
                        s.orelse[0].col_offset == s.col_offset:
                    F["elif"] += 1
                    els = self._seq(s.orelse, nxt, loop, ld, depth, in_def)
                else:
                    els = self._seq(s.orelse, nxt, loop, ld, depth + 1, in_def)
            else:
                els = nxt
            n.succ = [then, els]
            if n.lit is not None:
                n.succ_lit = [then if n.lit else els]
            if sibling is not None and not self.completes1(s):
                n.skip = [sibling]
            return n.idx
        if isinstance(s, ast.While):
            if s.orelse:
                raise ModelError("loop else")
            F["loops"] += 1
            F["while"] += 1
            n = self._new("while", ln, loop_depth=ld + 1)
            self._cond(n, s.test)
            if n.lit is True:
                F["while_true"] += 1
            body = self._seq(s.body, n.idx, (n.idx, nxt), ld + 1, depth + 1, in_def)
            n.succ = [body, nxt]
            if n.lit is not None:
                n.succ_lit = [body if n.lit else nxt]
            self._loops_seen += 1
            return n.idx
        if isinstance(s, ast.For):
            if s.orelse:
                raise ModelError("loop else")
            it = s.iter
            if not (isinstance(it, ast.Call) and isinstance(it.func, ast.Name) and it.func.id == "range"
                    and len(it.args) == 1 and isinstance(it.args[0], ast.Constant)
                    and isinstance(s.target, ast.Name)):
                raise ModelError("unsupported for loop")
            F["loops"] += 1
            F["for"] += 1
            n = self._new("for", ln, loop_depth=ld + 1)
            t = self._new("fortarget", ln, loop_depth=ld + 1)
            t.assign = (s.target.id, "lit", "int")
            body = self._seq(s.body, n.idx, (n.idx, nxt), ld + 1, depth + 1, in_def)
            t.succ = [body]
            n.succ = [t.idx, nxt]
            self._loops_seen += 1
            return n.idx
        if isinstance(s, ast.FunctionDef):
            if in_def:
                raise ModelError("doubly nested def")
            if s.args.args or s.decorator_list:
                raise ModelError("nested def with parameters/decorators")
            F["nested_def"] += 1
            n = self._new("def", ln, loop_depth=ld)
            lines = [ln]
            for sub in ast.walk(s):
                if isinstance(sub, ast.stmt) and sub is not s:
                    lines.append(sub.lineno)
                    if not isinstance(sub, ast.Expr | ast.If | ast.Pass):
                        raise ModelError("nested def body may only read")
                if isinstance(sub, ast.Name) and isinstance(sub.ctx, ast.Load) and sub.id != "result":
                    if sub.id not in n.reads:
                        self._read(n, sub.id, "nested_def", line=sub.lineno)
            n.lines = tuple(lines)
            # the definition binds its own name (never read in this domain)
            n.assign = (s.name, "lit", "function")
            n.succ = [nxt]
            return n.idx
        raise ModelError(f"unsupported statement {type(s).__name__}")

    # ------------------------------------------------------------------ path reasoning
    def _reach(self, succ_of):
        seen = {self.start.idx}
        st = [self.start.idx]
        while st:
            m = st.pop()
            for s in succ_of(self.nodes[m]):
                if s not in seen:
                    seen.add(s)
                    st.append(s)
        return seen

    def _preds(self, succ_of, live):
        preds = {n.idx: [] for n in self.nodes}
        for n in self.nodes:
            if n.idx not in live:
                continue
            for s in succ_of(n):
                preds[s].append(n.idx)
        return preds

    def types_before(self, preds, node, var):
        """Set of types (and UNDEF) that `var` may hold when control arrives at `node`:
        union over all paths from the start, found by backward search over (node, var)."""
        if var in self.params:
            return frozenset({"bool"})
        out = set()
        seen = set()
        stack = [(node, var)]
        while stack:
            m, w = stack.pop()
            if (m, w) in seen:
                continue
            seen.add((m, w))
            if m == self.start.idx:
                out.add(UNDEF)
                continue
            for p in preds[m]:
                a = self.nodes[p].assign
                if a is not None and a[0] == w:
                    if a[1] == "lit":
                        out.add(a[2])
                    elif a[2] in self.params:
                        out.add("bool")
                    else:
                        stack.append((p, a[2]))
                else:
                    stack.append((p, w))
        return frozenset(out)

    def assigned_before(self, preds, node, var):
        """(some path from the start reaches `node` without any assignment statement to
        `var`, some path passes one) — purely syntactic: `x = y` counts as an assignment of x
        whatever y holds.  Used for the wording of the diagnostic only."""
        seen = set()
        stack = [node]
        unassigned = assigned = False
        while stack:
            m = stack.pop()
            if m in seen:
                continue
            seen.add(m)
            if m == self.start.idx:
                unassigned = True
                continue
            for p in preds[m]:
                a = self.nodes[p].assign
                if a is not None and a[0] == var:
                    assigned = True
                else:
                    stack.append(p)
        return unassigned, assigned

    def label_ok(self, read, label):
        """Is the wording ('might' be undefined = an assignment statement lies on some path to
        the use / 'isnot' defined = on none) right for this read?  Only judged for reads that
        are reachable with literal conditions folded (None otherwise)."""
        if not read.live_lit:
            return None
        res = []
        for preds, have in ((self.predsL, True), (self.predsA, read.live_all)):
            if have:
                res.append(self.assigned_before(preds, read.node, read.var)[1])
        return any(res) if label == "might" else not all(res)

    def _finish(self):
        N = self.nodes
        all_succ = lambda n: n.succ  # noqa: E731
        lit_succ = lambda n: n.succ if n.succ_lit is None else n.succ_lit  # noqa: E731
        self.live_all = self._reach(all_succ)
        self.live_lit = self._reach(lit_succ)

        def may_succ(n):
            # edges out of dead code count as well: the compiler joins the types (and assignments) that
            # unreachable blocks carry into live ones (e.g. a dead `continue` back to a live loop head), which
            # belongs to the same tolerated class - G_may is only ever used as the *upper* bound
            return list(n.succ) + list(n.skip)

        self.live_may = self._reach(may_succ)
        pA = self._preds(all_succ, self.live_all)
        pL = self._preds(lit_succ, self.live_lit)
        pM = self._preds(may_succ, self.live_may)
        self.predsA = pA
        self.predsL = pL
        for r in self.reads:
            r.live_all = r.node in self.live_all
            r.live_lit = r.node in self.live_lit
            if r.live_all:
                r.tyA = self.types_before(pA, r.node, r.var)
            if r.live_lit:
                r.tyL = self.types_before(pL, r.node, r.var)
            if r.node in self.live_may:
                r.tyM = self.types_before(pM, r.node, r.var)
        self.U_A = any(_undef(r.tyA) for r in self.reads)
        self.T_A = any(_mist(r.tyA) for r in self.reads)
        self.U_L = any(_undef(r.tyL) for r in self.reads)
        self.T_L = any(_mist(r.tyL) for r in self.reads)
        self.U_M = any(_undef(r.tyM) for r in self.reads)
        self.T_M = any(_mist(r.tyM) for r in self.reads)
        # variables assigned on a strict subset of the entry->exit paths
        assigned = sorted({n.assign[0] for n in N if n.assign and n.kind != "def"})
        self.assigned = assigned
        self.partial = []
        for v in assigned:
            t = self.types_before(pA, self.exit.idx, v)
            if UNDEF in t and len(t) > 1:
                self.partial.append(v)
        self.line2node = {}
        for n in N:
            for ln in n.lines:
                if ln and n.kind not in ("join", "fortarget"):
                    self.line2node.setdefault(ln, n.idx)

    # ------------------------------------------------------------------ verdicts
    def verdict_A(self):
        """Acceptable outcomes under the statement's reading: {"ok"} or a set of titles."""
        return self.acceptable(frozenset())

    def acceptable(self, exclude):
        """Set of acceptable outcomes ("ok", ND, DT).  `exclude` widens the statement's
        reading by the tolerated classes: 'literal_folding' lowers the must-reject bound to
        problems that exist along G_lit paths, 'dead_code_checked' raises the may-reject
        bound to problems that exist along G_may paths."""
        UL, TL = (self.U_L, self.T_L) if "literal_folding" in exclude else (self.U_A, self.T_A)
        UH, TH = (self.U_M, self.T_M) if "dead_code_checked" in exclude else (self.U_A, self.T_A)
        acc = set()
        if not UL and not TL:
            acc.add("ok")
        if UH:
            acc.add(ND)
        if TH:
            acc.add(DT)
        return acc

    def excluded_classes(self, exclude):
        out = []
        if "literal_folding" in exclude and (self.U_L, self.T_L) != (self.U_A, self.T_A):
            out.append("literal_folding")
        if "dead_code_checked" in exclude and (self.U_M, self.T_M) != (self.U_A, self.T_A):
            out.append("dead_code_checked")
        return out

    def nontrivial(self):
        F = self.features
        return (F["loops"] >= 1 or F["ifs"] >= 2) and bool(self.partial)

    def read_at_line(self, line, var=None):
        idx = self.line2node.get(line)
        if idx is None:
            return None
        cands = [r for r in self.reads if r.node == idx and (var is None or r.var == var)]
        return cands[0] if cands else None

    def first_problem(self, which, level="A"):
        attr = {"A": "tyA", "L": "tyL", "M": "tyM"}[level]
        f = _undef if which == "undefined" else _mist
        for r in self.reads:
            if f(getattr(r, attr)):
                return r
        return None

    def describe(self):
        rows = []
        for r in self.reads:
            rows.append(f"line {r.line} {r.kind} `{r.var}`: A={sorted(r.tyA)} lit={sorted(r.tyL)} may={sorted(r.tyM)}"
                        f"{'' if r.live_all else ' [dead]'}{'' if r.live_lit or not r.live_all else ' [literal-dead]'}")
        return "\n".join(rows)

    def labels(self):
        F = self.features
        L = []
        if F["while"]:
            L.append("while")
        if F["for"]:
            L.append("for")
        if F["loops"] >= 2:
            L.append("loops>=2")
        if F["ifs"] >= 2:
            L.append("joins>=2")
        if F["elif"]:
            L.append("elif")
        for k in ("brk", "cnt", "ret", "nested_def", "var_cond", "while_true"):
            if F[k]:
                L.append(k)
        if F["lit_cond"]:
            L.append("literal_cond")
        if any(not r.live_all for r in self.reads):
            L.append("read_in_dead_code")
        if any(r.live_all and not r.live_lit for r in self.reads):
            L.append("read_in_literal_dead_branch")
        if self.partial:
            L.append("partial_assign")
        if F["max_depth"] >= 3:
            L.append("depth>=3")
        if any(n.kind == "cpy" for n in self.nodes):
            L.append("copy")
        return L
