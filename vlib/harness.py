"""Shared check harness: tiers, seeds, sharded worker processes, Hypothesis drivers
(collect-then-shrink), evidence, replay files, known findings, exit codes.

Exit codes: 0 held (KNOWN-FINDING lines allowed) / 1 VIOLATION / 2 harness problem.
A check file calls `main(spec)`; the same file is re-invoked per shard with --shard.
"""
from __future__ import annotations

import argparse
import collections
import fnmatch
import hashlib
import importlib
import json
import os
import subprocess
import sys
import time
import traceback

VERIF = os.path.dirname(os.path.dirname(os.path.abspath(__file__)))
NCPU = 16


# --------------------------------------------------------------------------- context
class HarnessError(Exception):
    """Problem in the harness/generator/toolchain, never a property violation."""


def case_hash(obj) -> str:
    return hashlib.sha1(json.dumps(obj, sort_keys=True, default=str).encode()).hexdigest()[:16]


class Ctx:
    """Per-shard recording context handed to a check's worker."""

    def __init__(self, prop, shard, nshards, seed, tier, budget_s, params):
        self.prop = prop
        self.shard = shard
        self.nshards = nshards
        self.seed = seed
        self.tier = tier
        self.budget_s = budget_s
        self.params = params
        self.t0 = time.monotonic()
        self.evaluations = 0
        self.nontrivial = set()
        self.labels = collections.Counter()
        self.samples = {}  # label -> sample (first seen per label class)
        self.violations = {}  # bucket -> dict(case, detail, count)
        self.known_hits = collections.Counter()
        self.excluded = collections.Counter()
        self.unsupported = collections.Counter()
        self.harness_errors = []
        self.notes = {}

    # time
    def elapsed(self):
        return time.monotonic() - self.t0

    def out_of_time(self, frac=1.0):
        return self.elapsed() > self.budget_s * frac

    def shard_seed(self, extra=0):
        h = hashlib.sha256(f"{self.prop}:{self.seed}:{self.shard}:{extra}".encode()).digest()
        return int.from_bytes(h[:8], "big")

    # recording
    def case(self, key, nontrivial, labels=(), sample=None):
        """Record one generated/evaluated case. `key` identifies the case (for the
        distinct count), `nontrivial` per the property's stated rule."""
        self.evaluations += 1
        if nontrivial:
            self.nontrivial.add(key if isinstance(key, str) and len(key) <= 16 else case_hash(key))
        for lab in labels:
            self.labels[lab] += 1
            if sample is not None and lab not in self.samples and len(self.samples) < 12:
                self.samples[lab] = sample
        if sample is not None and not self.samples:
            self.samples["_first"] = sample

    def label(self, lab, n=1):
        self.labels[lab] += n

    def sample(self, lab, sample):
        if lab not in self.samples and len(self.samples) < 12:
            self.samples[lab] = sample

    def violation(self, bucket, case, detail):
        """Record a mismatch. `bucket` is the root-cause signature, `case` a JSON-able
        dict that the check's replay() can re-run, `detail` a human-readable string."""
        v = self.violations.get(bucket)
        if v is None:
            self.violations[bucket] = {"case": case, "detail": str(detail)[:4000], "count": 1}
        else:
            v["count"] += 1
            # keep the smallest case (by serialized length) as representative
            if len(json.dumps(case, default=str)) < len(json.dumps(v["case"], default=str)):
                v["case"] = case
                v["detail"] = str(detail)[:4000]

    def exclude(self, why, n=1):
        self.excluded[why] += n

    def unsupported_case(self, why):
        self.unsupported[why] += 1

    def harness_error(self, msg):
        if len(self.harness_errors) < 20:
            self.harness_errors.append(str(msg)[:3000])

    def result(self):
        return {
            "shard": self.shard,
            "evaluations": self.evaluations,
            "nontrivial": sorted(self.nontrivial),
            "labels": dict(self.labels),
            "samples": self.samples,
            "violations": self.violations,
            "excluded": dict(self.excluded),
            "unsupported": dict(self.unsupported),
            "harness_errors": self.harness_errors,
            "notes": self.notes,
            "wall_s": self.elapsed(),
        }


# --------------------------------------------------------------------------- hypothesis
def hyp_settings(max_examples, shrink=False, stateful_steps=None):
    from hypothesis import HealthCheck, Phase, settings

    phases = [Phase.generate] + ([Phase.shrink] if shrink else [])
    kw = dict(
        max_examples=max_examples,
        deadline=None,
        database=None,
        derandomize=False,
        report_multiple_bugs=False,
        phases=phases,
        suppress_health_check=list(HealthCheck),
        print_blob=False,
    )
    if stateful_steps is not None:
        kw["stateful_step_count"] = stateful_steps
    return settings(**kw)


def hyp_search(ctx, strategy, body, max_examples, chunk=200, time_frac=0.8, extra_seed=0):
    """Drive `body(case)` over `max_examples` draws of `strategy`, in chunks with
    derived seeds, until the count or the time budget is reached. `body` must not
    raise for property mismatches (it records them through ctx.violation) so the search
    continues behind the first failure (collect-then-shrink, DESIGN 2.3). An exception
    escaping `body` is a harness error."""
    from hypothesis import given, seed

    done = 0
    k = 0
    while done < max_examples and not ctx.out_of_time(time_frac):
        n = min(chunk, max_examples - done)
        counter = [0]

        def run_one(case):
            if ctx.out_of_time(time_frac):
                return
            counter[0] += 1
            body(case)

        t = seed(ctx.shard_seed((extra_seed, k)) % (2**63))(
            hyp_settings(n)(given(strategy)(run_one))
        )
        try:
            t()
        except HarnessError:
            raise
        except BaseException as e:  # noqa: BLE001
            if isinstance(e, KeyboardInterrupt):
                raise
            ctx.harness_error("exception escaped property body: " + "".join(
                traceback.format_exception(type(e), e, e.__traceback__))[-2500:])
            # Hypothesis would stop at this failure for the chunk; go on with the next chunk
        done += max(counter[0], 1)
        k += 1
    return done


def hyp_shrink(ctx, strategy, fails, budget_s=45.0, max_examples=400, extra_seed=0, start=None):
    """Minimise a failure: `fails(case)` returns a falsy value if the case is fine and a
    truthy value (kept) if it exhibits the targeted bucket. Returns the smallest failing
    case seen (Hypothesis' shrinker order) or None. Capped by `budget_s`: after that the
    predicate stops failing so the shrinker terminates; the flaky report this causes is
    swallowed - our own record holds the minimum."""
    from hypothesis import given, seed, example

    t_end = time.monotonic() + budget_s
    best = [None]

    def run_one(case):
        if time.monotonic() > t_end:
            return
        r = fails(case)
        if r:
            best[0] = (case, r)
            raise AssertionError("target bucket")

    t = given(strategy)(run_one)
    if start is not None:
        t = example(start)(t)
    from hypothesis import Phase, settings, HealthCheck

    st = settings(
        max_examples=max_examples, deadline=None, database=None, report_multiple_bugs=False,
        phases=[Phase.explicit, Phase.generate, Phase.shrink],
        suppress_health_check=list(HealthCheck), print_blob=False,
    )
    t = seed(ctx.shard_seed(("shrink", extra_seed)) % (2**63))(st(t))
    try:
        t()
    except BaseException as e:  # noqa: BLE001
        if isinstance(e, KeyboardInterrupt):
            raise
    return best[0]


def run_machine(ctx, machine_cls, max_examples, steps, extra_seed=0):
    """Run a RuleBasedStateMachine; a failing invariant raises inside Hypothesis which then
    shrinks the history; we return the exception (or None)."""
    from hypothesis import seed
    from hypothesis.stateful import run_state_machine_as_test

    st = hyp_settings(max_examples, shrink=True, stateful_steps=steps)
    try:
        run_state_machine_as_test(
            seed(ctx.shard_seed(("machine", extra_seed)) % (2**63))(machine_cls), settings=st
        )
    except HarnessError:
        raise
    except BaseException as e:  # noqa: BLE001
        if isinstance(e, KeyboardInterrupt):
            raise
        return e
    return None


# --------------------------------------------------------------------------- known findings
def load_known(prop):
    p = os.path.join(VERIF, "known_findings.json")
    if not os.path.exists(p):
        return [], []
    d = json.load(open(p))
    known = [k for k in d.get("known", []) if k["property"] == prop]
    fixed = [k for k in d.get("fixed", []) if isinstance(k, dict) and k.get("property") == prop]
    return known, fixed


def match_known(known, bucket):
    for k in known:
        for pat in k.get("buckets", [k.get("key")]):
            if pat and fnmatch.fnmatchcase(bucket, pat):
                return k
    return None


# --------------------------------------------------------------------------- main
class Spec:
    """What a check file declares."""

    def __init__(
        self,
        prop,
        worker,
        replay,
        rule,
        assumptions=(),
        shards={"quick": NCPU, "thorough": NCPU},
        budget_s={"quick": 60, "thorough": 600},
        params={"quick": {}, "thorough": {}},
        min_nontrivial=2,
        needs_guppy=True,
        finalize=None,
        regressions=(),
        exhaustive=None,
    ):
        self.prop = prop
        self.worker = worker
        self.replay = replay
        self.rule = rule
        self.assumptions = list(assumptions)
        self.shards = shards
        self.budget_s = budget_s
        self.params = params
        self.min_nontrivial = min_nontrivial
        self.needs_guppy = needs_guppy
        self.finalize = finalize
        self.regressions = list(regressions)  # fixed replay cases always run (shard 0)
        self.exhaustive = exhaustive


def _install_guppy():
    sys.path.insert(0, VERIF) if VERIF not in sys.path else None
    import compat

    compat.install()


def _shard_main(spec, args):
    out = args.out
    ctx = Ctx(spec.prop, args.shard, args.nshards, args.seed, args.tier, args.budget,
              spec.params.get(args.tier, {}))
    try:
        if spec.needs_guppy:
            _install_guppy()
        spec.worker(ctx)
    except BaseException as e:  # noqa: BLE001
        ctx.harness_error("worker crashed: " + "".join(
            traceback.format_exception(type(e), e, e.__traceback__))[-3000:])
    with open(out, "w") as f:
        json.dump(ctx.result(), f, default=str)
    return 0


def _replay_main(spec, path):
    case = json.load(open(path))
    if spec.needs_guppy:
        _install_guppy()
    r = spec.replay(case.get("case", case))
    if r:
        print(f"replay FAILS: bucket={r[0]}\n{r[1]}")
        print(f"VIOLATION property={spec.prop} replay={path}")
        return 1
    print("replay passes (property holds on this input)")
    return 0


def main(spec: Spec):
    ap = argparse.ArgumentParser()
    ap.add_argument("--tier", default=os.environ.get("VERIF_TIER", "quick"),
                    choices=["quick", "thorough"])
    ap.add_argument("--seed", type=int, default=None)
    ap.add_argument("--shard", type=int, default=None)
    ap.add_argument("--nshards", type=int, default=None)
    ap.add_argument("--budget", type=float, default=None)
    ap.add_argument("--out", default=None)
    ap.add_argument("--replay", default=None)
    ap.add_argument("--shards", type=int, default=None, help="override shard count")
    args = ap.parse_args()
    if args.seed is None:
        try:
            args.seed = int(os.environ.get("VERIF_SEED", "1"))
        except ValueError:
            args.seed = 1
    if args.replay:
        sys.exit(_replay_main(spec, args.replay))
    if args.shard is not None:
        sys.exit(_shard_main(spec, args))
    sys.exit(_parent_main(spec, args))


def _parent_main(spec, args):
    t0 = time.monotonic()
    prop = spec.prop
    tier = args.tier
    nshards = args.shards or spec.shards.get(tier, NCPU)
    budget = args.budget or spec.budget_s.get(tier, 60)
    script = os.path.abspath(sys.argv[0])
    work = os.path.join(VERIF, ".work", f"{prop}-{os.getpid()}")
    os.makedirs(work, exist_ok=True)
    env = dict(os.environ)
    env["PYTHONHASHSEED"] = env.get("VERIF_HASHSEED", "0")
    env["VERIF_WORK"] = work
    env.setdefault("PYTHONWARNINGS", "ignore")
    procs = []
    for i in range(nshards):
        out = os.path.join(work, f"shard{i}.json")
        log = open(os.path.join(work, f"shard{i}.log"), "w")
        cmd = [sys.executable, script, "--tier", tier, "--seed", str(args.seed), "--shard", str(i),
               "--nshards", str(nshards), "--budget", str(budget), "--out", out]
        procs.append((i, out, log, subprocess.Popen(cmd, stdout=log, stderr=subprocess.STDOUT,
                                                    env=env, cwd=VERIF)))
    hard = budget * 2.5 + 120
    results = []
    harness_errors = []
    for i, out, log, p in procs:
        try:
            p.wait(timeout=max(1, hard - (time.monotonic() - t0)))
        except subprocess.TimeoutExpired:
            p.kill()
            harness_errors.append(f"shard {i} exceeded hard timeout {hard:.0f}s (inconclusive)")
        log.close()
        if os.path.exists(out):
            try:
                results.append(json.load(open(out)))
            except Exception as e:  # noqa: BLE001
                harness_errors.append(f"shard {i} result unreadable: {e}")
        else:
            tail = open(log.name).read()[-1500:]
            harness_errors.append(f"shard {i} produced no result (rc={p.returncode}): {tail}")

    # merge
    evaluations = sum(r["evaluations"] for r in results)
    nontrivial = set()
    labels = collections.Counter()
    samples = {}
    excluded = collections.Counter()
    unsupported = collections.Counter()
    violations = {}
    notes = {}
    for r in results:
        nontrivial.update(r["nontrivial"])
        labels.update(r["labels"])
        excluded.update(r["excluded"])
        unsupported.update(r["unsupported"])
        for k, v in r["samples"].items():
            if k not in samples and len(samples) < 10:
                samples[k] = v
        for b, v in r["violations"].items():
            if b not in violations:
                violations[b] = v
            else:
                violations[b]["count"] += v["count"]
                if len(json.dumps(v["case"], default=str)) < len(json.dumps(violations[b]["case"], default=str)):
                    violations[b]["case"], violations[b]["detail"] = v["case"], v["detail"]
        harness_errors.extend(f"shard {r['shard']}: {e}" for e in r["harness_errors"])
        for k, v in r.get("notes", {}).items():
            notes.setdefault(k, v)

    known, fixed = load_known(prop)
    lines = []
    new_violations = []
    known_hit = collections.Counter()
    for b, v in sorted(violations.items()):
        k = match_known(known, b)
        if k is not None:
            known_hit[k["key"]] += v["count"]
        else:
            new_violations.append((b, v))

    # probes of the known findings (fixed inputs, run in-process here)
    known_report = []
    if known:
        try:
            if spec.needs_guppy:
                _install_guppy()
            for k in known:
                still = None
                if k.get("probe") is not None:
                    try:
                        still = spec.replay(k["probe"])
                    except BaseException as e:  # noqa: BLE001
                        harness_errors.append(f"known-finding probe {k['key']} crashed: {e!r}")
                        continue
                if still:
                    lines.append(f"KNOWN-FINDING: property={prop} {k['what_fails']} [key={k['key']}]")
                    known_report.append({"key": k["key"], "still_fails": True,
                                         "search_hits": known_hit.get(k["key"], 0)})
                else:
                    known_report.append({"key": k["key"], "still_fails": False,
                                         "search_hits": known_hit.get(k["key"], 0)})
                    if known_hit.get(k["key"], 0):
                        lines.append(f"KNOWN-FINDING: property={prop} {k['what_fails']} [key={k['key']}]")
        except BaseException as e:  # noqa: BLE001
            harness_errors.append("known-finding probes failed to run: " + repr(e))

    rc = 0
    rdir = os.path.join(VERIF, "replays", prop)
    for b, v in new_violations:
        os.makedirs(rdir, exist_ok=True)
        safe = "".join(c if c.isalnum() or c in "-_." else "_" for c in b)[:80]
        path = os.path.join(rdir, f"{safe}-{case_hash(v['case'])}.json")
        with open(path, "w") as f:
            json.dump({"property": prop, "bucket": b, "case": v["case"], "detail": v["detail"],
                       "count": v["count"], "seed": args.seed, "tier": tier,
                       "how_to_run": f"/venv/bin/python {os.path.relpath(script, VERIF)} --replay {os.path.relpath(path, VERIF)}"},
                      f, indent=1, default=str)
        lines.append(f"VIOLATION property={prop} replay={os.path.relpath(path, VERIF)}")
        lines.append(f"  bucket={b} count={v['count']} detail={v['detail'][:600]}")
        rc = 1

    if spec.finalize is not None:
        try:
            spec.finalize(locals())
        except Exception as e:  # noqa: BLE001
            harness_errors.append(f"finalize: {e!r}")

    if rc == 0:
        if harness_errors:
            rc = 2
        elif len(nontrivial) < spec.min_nontrivial:
            harness_errors.append(
                f"only {len(nontrivial)} distinct non-trivial cases (< floor {spec.min_nontrivial})")
            rc = 2

    wall = time.monotonic() - t0
    cov = {
        "evaluations": int(evaluations),
        "distinct_nontrivial": len(nontrivial),
        "rule": spec.rule,
        "samples": list(samples.values())[:8] or ["<none>"],
        "labels": dict(labels.most_common()),
        "excluded_by_construction": dict(excluded),
        "toolchain_unsupported": dict(unsupported),
        "known_findings": known_report,
        "shards": nshards,
        "budget_s": budget,
        "harness_errors": harness_errors[:10],
        "notes": notes,
    }
    if spec.exhaustive is not None:
        cov["exhaustive"] = bool(spec.exhaustive)
    ev = {
        "property_id": prop,
        "tier": tier,
        "seed": int(args.seed),
        "level": "exploration",
        "coverage": cov,
        "assumptions": spec.assumptions,
        "wall_s": round(wall, 2),
        "violations": len(new_violations),
    }
    # sensitivity / seeded runs against a modified tree redirect their evidence so that the
    # committed evidence always describes /repo itself
    evdir = os.environ.get("VERIF_EVIDENCE_DIR") or os.path.join(VERIF, "evidence")
    os.makedirs(evdir, exist_ok=True)
    with open(os.path.join(evdir, f"{prop}.json"), "w") as f:
        json.dump(ev, f, indent=1, default=str)

    for ln in lines:
        print(ln)
    for e in harness_errors[:10]:
        print(f"HARNESS: {e}", file=sys.stderr)
    print(f"{prop} tier={tier} seed={args.seed} evaluations={evaluations} "
          f"distinct_nontrivial={len(nontrivial)} violations={len(new_violations)} "
          f"known={sum(1 for k in known_report if k['still_fails'])} wall={wall:.1f}s rc={rc}")
    # clean the work dir
    try:
        import shutil

        shutil.rmtree(work, ignore_errors=True)
    except Exception:  # noqa: BLE001
        pass
    return rc
