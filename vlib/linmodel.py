"""linmodel — reference model for C06 (linearity), written from the property statement.

An abstract interpreter over GenLin's IR (vlib/gen/lin.py).  It is *not* a port of
linearity_checker.py: there are no basic blocks, scopes or liveness analysis here.  The
program tree is interpreted structurally; the abstract state maps every *leaf place* (a
qubit variable, a struct field, a tuple element, the int field of a struct) to the set of
conditions it can be in on some path reaching the program point:

    U  undefined (never assigned on that path)
    L  live      (holds a value that has not been consumed)
    M  moved     (its value was consumed / moved away / returned)

Branch conditions are opaque, so both outcomes are possible at every `if` / `while`; loops
are iterated to a fixpoint (the lattice is finite: 2^3 per leaf); `break`, `continue` and
`return` are collected structurally.  Because every transfer function sets a leaf to a
constant or leaves it alone, the per-leaf powerset is *exactly* the projection of the
path-collecting semantics - nothing is over-approximated.

The verdict is OK iff on every path
  * every (moving or borrowing) use hits a leaf that is live, every read is defined,
  * no live non-droppable leaf is overwritten,
  * at every exit (fall off the end / `return`) no non-borrowed qubit leaf is live,
  * a borrowed parameter is never moved (or re-bound) as a whole and all its qubit leaves are
    live at every exit,
  * no non-droppable value is created without a name (expression statement / borrowed
    temporary).

IR (JSON-able, lists):
  place   ["v", x] | ["f", x, field] | ["i", x, k]
  expr    place | ["new"] | ["int", k] | ["tup", [expr..]] | ["struct", S, [expr..]]
          | ["call", fname, [expr..]]
  target  ["v", x] | ["f", x, field] | ["pat", [target..]]
  stmt    ["assign", target, expr] | ["expr", expr] | ["retype", x] | ["if", cond, then, else]
          | ["while", cond, body] | ["break"] | ["continue"] | ["return", expr|None] | ["pass"]
  fn      {"params": [[name, type, mode]], "locals": {name: type}, "ret": type|None,
           "body": [stmt..]}     type in Q T S2 SI I B; mode in owned borrowed plain
"""
from __future__ import annotations

U, L, M = "U", "L", "M"

# leaf selectors of every type; (selector kind, selector, leaf type)
STRUCT_FIELDS = {"S2": [("q1", "Q"), ("q2", "Q")], "SI": [("q", "Q"), ("n", "I")]}
TUPLE_ELEMS = {"T": ["Q", "Q"]}

# callee signatures: name -> ([(type, "own"|"bor")], result type or None)
FUNCS = {
    "discard": ([("Q", "own")], None),
    "measure": ([("Q", "own")], "B"),
    "h": ([("Q", "bor")], None),
    "cx": ([("Q", "bor"), ("Q", "bor")], None),
    "own1": ([("Q", "own")], None),
    "own_ret": ([("Q", "own")], "Q"),
    "bor1": ([("Q", "bor")], None),
    "bor2": ([("Q", "bor"), ("Q", "bor")], None),
    "bor_ret": ([("Q", "bor")], "Q"),
    "mix": ([("Q", "bor"), ("Q", "own")], None),
    "own_s2": ([("S2", "own")], None),
    "bor_s2": ([("S2", "bor")], None),
    "own_si": ([("SI", "own")], None),
    "bor_si": ([("SI", "bor")], None),
    "own_t": ([("T", "own")], None),
    "bor_t": ([("T", "bor")], None),
}

DROPPABLE = {"I", "B", None}


def leaves_of_type(ty):
    """[(kind, sel, leaf_type)] of the leaves of a value of type `ty`."""
    if ty in STRUCT_FIELDS:
        return [("f", f, ft) for f, ft in STRUCT_FIELDS[ty]]
    if ty in TUPLE_ELEMS:
        return [("i", k, et) for k, et in enumerate(TUPLE_ELEMS[ty])]
    return [("", "", ty)]


class OutsideFragment(Exception):
    """The IR uses something the model does not define (generator bug)."""


class Verdict:
    def __init__(self, errors):
        self.errors = errors  # [(kind, ctx, place_text)] in discovery order, no duplicates
        self.ok = not errors

    @property
    def kinds(self):
        return sorted({e[0] for e in self.errors})

    @property
    def primary(self):
        """kind.ctx of the first error (bucket component)."""
        if not self.errors:
            return "ok"
        k, c, _ = self.errors[0]
        return f"{k}.{c}"

    def brief(self):
        return "OK" if self.ok else "BAD " + "; ".join(f"{k}.{c}({p})" for k, c, p in self.errors[:6])


def _join(a, b):
    if a is None:
        return b
    if b is None:
        return a
    if a is b:
        return a
    return {k: a[k] | b[k] for k in a}


class _Flow:
    __slots__ = ("normal", "brk", "cont")

    def __init__(self, normal=None, brk=None, cont=None):
        self.normal, self.brk, self.cont = normal, brk, cont


class Interp:
    def __init__(self, fn):
        self.fn = fn
        self.types = {}
        self.borrowed = set()
        self.state0 = {}
        self.leaf_ty = {}
        self.errors = []
        self._seen = set()
        for name, ty, mode in fn["params"]:
            self.types[name] = ty
            if mode == "borrowed":
                self.borrowed.add(name)
            for kind, sel, lt in leaves_of_type(ty):
                self.state0[(name, kind, sel)] = frozenset([L])
                self.leaf_ty[(name, kind, sel)] = lt
        for name, ty in fn["locals"].items():
            if name in self.types:
                raise OutsideFragment(f"{name} is both parameter and local")
            self.types[name] = ty
            for kind, sel, lt in leaves_of_type(ty):
                self.state0[(name, kind, sel)] = frozenset([U])
                self.leaf_ty[(name, kind, sel)] = lt

    # ------------------------------------------------------------------ helpers
    def err(self, kind, ctx, what):
        c = "loop" if "while" in ctx else ("branch" if "if" in ctx else "straight")
        key = (kind, c, what)
        if key not in self._seen:
            self._seen.add(key)
            self.errors.append(key)

    def linear(self, leaf):
        return self.leaf_ty[leaf] == "Q"

    def place_leaves(self, p):
        """-> (leaves, is_whole_root)"""
        k = p[0]
        if k == "v":
            x = p[1]
            if x not in self.types:
                raise OutsideFragment(f"unknown variable {x}")
            return [(x, kind, sel) for kind, sel, _ in leaves_of_type(self.types[x])], True
        if k in ("f", "i"):
            leaf = (p[1], k, p[2])
            if leaf not in self.leaf_ty:
                raise OutsideFragment(f"no such place {p}")
            return [leaf], False
        raise OutsideFragment(f"not a place: {p}")

    @staticmethod
    def text(p):
        if p[0] == "v":
            return p[1]
        if p[0] == "f":
            return f"{p[1]}.{p[2]}"
        return f"{p[1]}[{p[2]}]"

    @staticmethod
    def leaf_text(leaf):
        x, kind, sel = leaf
        return x if kind == "" else (f"{x}.{sel}" if kind == "f" else f"{x}[{sel}]")

    def root_leaves(self, x):
        return [(x, kind, sel) for kind, sel, _ in leaves_of_type(self.types[x])]

    # ------------------------------------------------------------------ uses
    def check_use(self, st, leaf, ctx):
        s = st[leaf]
        if U in s:
            self.err("use_undefined", ctx, self.leaf_text(leaf))
        if self.linear(leaf) and M in s:
            self.err("use_after_move", ctx, self.leaf_text(leaf))

    def use_move(self, st, p, ctx):
        leaves, whole = self.place_leaves(p)
        if whole and p[1] in self.borrowed and any(self.linear(lf) for lf in leaves):
            self.err("borrowed_moved", ctx, self.text(p))
        for lf in leaves:
            self.check_use(st, lf, ctx)
            if self.linear(lf):
                st[lf] = frozenset([M])

    def use_borrow(self, st, p, ctx, held):
        leaves, _ = self.place_leaves(p)
        for lf in leaves:
            self.check_use(st, lf, ctx)
            if self.linear(lf):
                st[lf] = frozenset([M])  # held by the callee for the duration of the call
                held.append(lf)

    def result_type(self, e):
        k = e[0]
        if k == "v":
            return self.types[e[1]]
        if k in ("f", "i"):
            return self.leaf_ty[(e[1], k, e[2])]
        if k == "new":
            return "Q"
        if k == "int":
            return "I"
        if k == "tup":
            return "T"
        if k == "struct":
            return e[1]
        if k == "call":
            return FUNCS[e[1]][1]
        raise OutsideFragment(f"expr {e}")

    def eval(self, st, e, ctx):
        k = e[0]
        if k in ("v", "f", "i"):
            self.use_move(st, e, ctx)
        elif k in ("new", "int"):
            pass
        elif k == "tup":
            for x in e[1]:
                self.eval(st, x, ctx)
        elif k == "struct":
            for x in e[2]:
                self.eval(st, x, ctx)
        elif k == "call":
            sig, _ = FUNCS[e[1]]
            if len(sig) != len(e[2]):
                raise OutsideFragment(f"arity {e}")
            held = []
            for (_, mode), a in zip(sig, e[2]):
                if mode == "bor":
                    if a[0] in ("v", "f", "i"):
                        self.use_borrow(st, a, ctx, held)
                    else:
                        self.eval(st, a, ctx)
                        if self.result_type(a) not in DROPPABLE:
                            self.err("leak_unnamed", ctx, "borrowed temporary")
                else:
                    self.eval(st, a, ctx)
            for lf in held:  # handed back
                st[lf] = frozenset([L])
        else:
            raise OutsideFragment(f"expr {e}")

    # ------------------------------------------------------------------ assignment
    def assign(self, st, t, ctx):
        k = t[0]
        if k == "pat":
            for x in t[1]:
                self.assign(st, x, ctx)
            return
        if k == "v":
            x = t[1]
            if x not in self.types:
                raise OutsideFragment(f"unknown variable {x}")
            leaves = self.root_leaves(x)
            if x in self.borrowed and any(self.linear(lf) for lf in leaves):
                self.err("borrow_shadowed", ctx, x)
            for lf in leaves:
                if self.linear(lf) and L in st[lf]:
                    self.err("overwrite_live", ctx, self.leaf_text(lf))
                st[lf] = frozenset([L])
            return
        if k == "f":
            leaf = (t[1], "f", t[2])
            if leaf not in self.leaf_ty or not self.linear(leaf):
                raise OutsideFragment(f"assignment target {t}")
            if any(U in st[lf] for lf in self.root_leaves(t[1])):
                self.err("use_undefined", ctx, t[1])
            if L in st[leaf]:
                self.err("overwrite_live", ctx, self.leaf_text(leaf))
            st[leaf] = frozenset([L])
            return
        raise OutsideFragment(f"assignment target {t}")

    # ------------------------------------------------------------------ exits
    def exit_check(self, st, ctx, what):
        for lf, s in st.items():
            if not self.linear(lf):
                continue
            if lf[0] in self.borrowed:
                if s != frozenset([L]):
                    self.err("borrowed_not_restored", ctx, self.leaf_text(lf))
            elif L in s:
                kind = "leak_at_" + what
                if what == "exit":
                    kind += ".all_paths" if s == frozenset([L]) else ".some_paths"
                self.err(kind, ctx, self.leaf_text(lf))

    # ------------------------------------------------------------------ statements
    def block(self, stmts, st, ctx):
        out = _Flow(normal=st)
        for s in stmts:
            if out.normal is None:
                break  # unreachable code is on no path
            r = self.stmt(s, out.normal, ctx)
            out.normal = r.normal
            out.brk = _join(out.brk, r.brk)
            out.cont = _join(out.cont, r.cont)
        return out

    def stmt(self, s, st, ctx):
        k = s[0]
        if k == "pass":
            return _Flow(normal=st)
        if k == "assign":
            st = dict(st)
            self.eval(st, s[2], ctx)
            self.assign(st, s[1], ctx)
            return _Flow(normal=st)
        if k == "retype":
            # `x = 0`: the name is re-bound to a classical value.  Whatever qubits it still holds are
            # overwritten (they must not be live); afterwards the name holds no qubit at all (the
            # generator only emits this as the last use of the name).
            st = dict(st)
            x = s[1]
            leaves = self.root_leaves(x)
            if x in self.borrowed and any(self.linear(lf) for lf in leaves):
                self.err("borrow_shadowed", ctx, x)
            for lf in leaves:
                if self.linear(lf) and L in st[lf]:
                    self.err("overwrite_live", ctx, self.leaf_text(lf))
                if self.linear(lf):
                    st[lf] = frozenset([M])
            return _Flow(normal=st)
        if k == "expr":
            st = dict(st)
            self.eval(st, s[1], ctx)
            if s[1][0] in ("new", "tup", "struct", "call") and self.result_type(s[1]) not in DROPPABLE:
                self.err("leak_unnamed", ctx, "expression statement")
            return _Flow(normal=st)
        if k == "if":
            a = self.block(s[2], st, ctx + ("if",))
            b = self.block(s[3], st, ctx + ("if",))
            return _Flow(_join(a.normal, b.normal), _join(a.brk, b.brk), _join(a.cont, b.cont))
        if k == "while":
            head = st
            while True:
                body = self.block(s[2], head, ctx + ("while",))
                new = _join(_join(head, body.normal), body.cont)
                if new == head:
                    break
                head = new
            return _Flow(normal=_join(head, body.brk))
        if k == "break":
            return _Flow(brk=st)
        if k == "continue":
            return _Flow(cont=st)
        if k == "return":
            st = dict(st)
            if s[1] is not None:
                self.eval(st, s[1], ctx)
            self.exit_check(st, ctx, "return")
            return _Flow()
        raise OutsideFragment(f"statement {s}")

    def run(self):
        out = self.block(self.fn["body"], dict(self.state0), ())
        if out.brk is not None or out.cont is not None:
            raise OutsideFragment("break/continue outside a loop")
        if out.normal is not None:
            if self.fn["ret"] is not None:
                raise OutsideFragment("a path falls off the end of a function with a result")
            self.exit_check(out.normal, (), "exit")
        return Verdict(self.errors)


def analyse(fn) -> Verdict:
    return Interp(fn).run()
