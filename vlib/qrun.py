"""Emulate wrapper for checks that need `state_result` statevectors (C20).

Like runner.emulate_pkg, but additionally returns, per `state_result` tag, the distribution
[(probability, statevector)] obtained through /repo's public emulator API
(`EmulatorResult.partial_states()` -> `PartialVector.state_distribution()`), and lets one
build be run with several seeds. compat.install() must have been called."""
from __future__ import annotations

import os
import shutil
import tempfile

from vlib import runner
from vlib.runner import Outcome


class Built:
    """A built emulator instance (one selene build) that can be run repeatedly."""

    def __init__(self, inst, d):
        self.inst, self.dir = inst, d

    def run(self, seed=1) -> Outcome:
        """-> Outcome; kind ok: .stream = [(tag, value)] without STATE entries,
        .extra['states'] = [(tag, [(prob, np.ndarray), ...])] in program order,
        .extra['rho'] = {tag: reduced density matrix of the listed qubits | None}."""
        from guppylang.emulator.exceptions import EmulatorError

        try:
            with runner.quiet():
                res = self.inst.with_seed(seed).with_shots(1).run()
                states = res.partial_states()[0]
        except EmulatorError as e:
            stream = []
            if e.failing_shot is not None:
                stream = [(t, runner.norm_value(v)) for t, v in e.failing_shot.entries]
            return Outcome("panic", stream=stream, message=str(e.underlying_exception), exc=e)
        except BaseException as e:  # noqa: BLE001
            if isinstance(e, (KeyboardInterrupt, SystemExit)):
                raise
            return Outcome("unsupported", message=f"selene run failed: {e!r}"[:1500], exc=e,
                           title="selene-run")
        stream = [(t, runner.norm_value(v)) for t, v in res.results[0].entries
                  if not t.startswith("STATE:")]
        out_states = []
        rhos = {}
        try:
            for tag, pv in states:
                dist = [(float(ts.probability), ts.state) for ts in pv.state_distribution()]
                out_states.append((tag, dist))
                # reduced density matrix straight from the simulator's full statevector; needed for
                # mixed states: selene's state_distribution() diagonalises with np.linalg.eig, whose
                # eigenvectors of a degenerate eigenvalue are not orthogonal (sum p|v><v| != rho)
                inner = getattr(pv, "_inner", None)
                rhos[tag] = inner.get_density_matrix(zero_threshold=0) if inner is not None else None
        except BaseException as e:  # noqa: BLE001
            if isinstance(e, (KeyboardInterrupt, SystemExit)):
                raise
            return Outcome("crash", message=f"state extraction failed: {e!r}", exc=e,
                           title=type(e).__name__)
        return Outcome("ok", stream=stream, extra={"states": out_states, "rho": rhos})

    def dispose(self):
        shutil.rmtree(self.dir, ignore_errors=True)


def build_pkg(pkg, n_qubits):
    """-> (Outcome, Built|None). Statevector simulator (Quest) is the default."""
    from pathlib import Path

    from guppylang.emulator import EmulatorBuilder

    d = tempfile.mkdtemp(prefix="q", dir=runner.build_dir())
    try:
        with runner.quiet():
            inst = EmulatorBuilder().with_build_dir(Path(d)).build(pkg, n_qubits=n_qubits)
    except BaseException as e:  # noqa: BLE001
        shutil.rmtree(d, ignore_errors=True)
        if isinstance(e, (KeyboardInterrupt, SystemExit)):
            raise
        return Outcome("unsupported", message=f"selene build failed: {str(e)[:1500]}", exc=e,
                       title="selene-build"), None
    return Outcome("ok"), Built(inst, d)


def run_states(src, n_qubits, seed=1, entry="main"):
    """load + compile + build + run once. -> Outcome (see Built.run); the module and the
    build directory are disposed of."""
    dump = os.environ.get("VERIF_QRUN_DUMP")
    if dump:  # debugging aid: keep the last program handed to the emulator
        with open(dump, "w") as f:
            f.write(f"# n_qubits={n_qubits} seed={seed}\n" + src)
    try:
        lm = runner.load_module(src)
    except SyntaxError as e:
        return Outcome("crash", message=f"generator produced invalid python: {e}", title="SyntaxError-gen")
    except BaseException as e:  # noqa: BLE001
        if isinstance(e, (KeyboardInterrupt, SystemExit)):
            raise
        return runner.classify_exception(e)
    try:
        out, pkg = runner.compile_def(getattr(lm.mod, entry))
        if out.kind != "ok":
            return out
        out, built = build_pkg(pkg, n_qubits)
        if built is None:
            return out
        try:
            return built.run(seed)
        finally:
            built.dispose()
    finally:
        lm.dispose()
