"""GenScope — program generator for C08 (DESIGN.md section 4, C08).

Programs only assign and read `int/bool/float` variables (<= 4 names, the type may differ per
assignment) under nested `if/elif/else/while/for/break/continue/return` (nesting <= 4,
<= 20 statements).  Reads (`result("r", x)`, `y = x`, `if x:`/`while x:` and nested `def`s
that read outer variables) are placed *freely* — nothing is valid by construction.
Conditions are mostly the opaque bool parameters c0..c3; literal `True`/`False`
conditions (incl. `while True`) and code after `return/break/continue` are generated too.
Reads are only of locals: a name that is read but never assigned gets an assignment at
the start or the end of the function.

IR (JSON-able nested lists):
  ["asg", v, ty] ["cpy", dst, src] ["rd", v] ["pass"] ["ret"] ["brk"] ["cnt"]
  ["if", [[cond, body], ...], orelse|None]  ["while", cond, body]  ["for", target, body]
  ["def", k, [[v, guard|None], ...]]
  cond: ["p", k] | ["lit", bool] | ["var", v]
"""
from __future__ import annotations

from hypothesis import strategies as st

NAMES = ["a", "b", "d", "e"]
NPARAMS = 4
LIT = {"int": ["1", "7", "0"], "bool": ["True", "False"], "float": ["1.5", "0.25"]}
TYPES = ["int", "bool", "float"]
HEADER = "@guppy\ndef f(" + ", ".join(f"c{i}: bool" for i in range(NPARAMS)) + ") -> None:\n"

MAX_STMTS = 20
MAX_DEPTH = 4


def render_cond(c):
    if c[0] == "p":
        return f"c{c[1]}"
    if c[0] == "lit":
        return "True" if c[1] else "False"
    return c[1]


def render_block(body, ind, out):
    pad = "    " * ind
    for s in body:
        k = s[0]
        if k == "asg":
            lits = LIT[s[2]]
            ann = f": {s[2]}" if len(s) > 3 and s[3] else ""
            out.append(f"{pad}{s[1]}{ann} = {lits[len(out) % len(lits)]}")
        elif k == "cpy":
            ann = f": {s[3]}" if len(s) > 3 and s[3] else ""
            out.append(f"{pad}{s[1]}{ann} = {s[2]}")
        elif k == "rd":
            if len(s) > 2 and s[2] == "bare":
                out.append(f"{pad}{s[1]}")  # a bare-name expression statement is a read too
            else:
                out.append(f'{pad}result("r", {s[1]})')
        elif k == "pass":
            out.append(f"{pad}pass")
        elif k == "ret":
            out.append(f"{pad}return")
        elif k == "brk":
            out.append(f"{pad}break")
        elif k == "cnt":
            out.append(f"{pad}continue")
        elif k == "if":
            for i, (c, b) in enumerate(s[1]):
                out.append(f"{pad}{'if' if i == 0 else 'elif'} {render_cond(c)}:")
                render_block(b, ind + 1, out)
            if s[2] is not None:
                out.append(f"{pad}else:")
                render_block(s[2], ind + 1, out)
        elif k == "while":
            out.append(f"{pad}while {render_cond(s[1])}:")
            render_block(s[2], ind + 1, out)
        elif k == "for":
            out.append(f"{pad}for {s[1]} in range(2):")
            render_block(s[2], ind + 1, out)
        elif k == "def":
            out.append(f"{pad}def g{s[1]}() -> None:")
            for v, g in s[2]:
                if g is None:
                    out.append(f'{pad}    result("r", {v})')
                else:
                    out.append(f"{pad}    if {render_cond(g)}:")
                    out.append(f'{pad}        result("r", {v})')
        else:
            raise ValueError(s)


def render(ir):
    out = []
    render_block(ir, 1, out)
    return HEADER + "\n".join(out) + "\n"


def walk(body):
    for s in body:
        yield s
        if s[0] == "if":
            for _, b in s[1]:
                yield from walk(b)
            if s[2] is not None:
                yield from walk(s[2])
        elif s[0] in ("while", "for"):
            yield from walk(s[2])


def names_read(ir):
    out = set()
    for s in walk(ir):
        if s[0] == "rd":
            out.add(s[1])
        elif s[0] == "cpy":
            out.add(s[2])
        elif s[0] == "def":
            out.update(v for v, _ in s[2])
        if s[0] == "if":
            out.update(c[1] for c, _ in s[1] if c[0] == "var")
        if s[0] == "while" and s[1][0] == "var":
            out.add(s[1][1])
    return out


def names_assigned(ir):
    out = set()
    for s in walk(ir):
        if s[0] in ("asg", "cpy", "for"):
            out.add(s[1])
    return out


# statement kinds and weights (drawn with sampled_from over the expanded list)
_W_TOP = (["asg"] * 8 + ["rd"] * 11 + ["cpy"] * 2 + ["if"] * 9 + ["while"] * 4 + ["for"] * 3 + ["def"] * 2
          + ["ret"] * 1 + ["pass"] * 1)
_W_LOOP = _W_TOP + ["brk"] * 3 + ["cnt"] * 3
_W_LEAF = ["asg"] * 9 + ["rd"] * 11 + ["cpy"] * 2 + ["ret"] * 1 + ["pass"] * 1 + ["def"] * 1
_W_LEAF_LOOP = _W_LEAF + ["brk"] * 2 + ["cnt"] * 2


@st.composite
def programs(draw, literal_conds=True, dead_code=True):
    """-> {"ir": ..., "src": function source text}"""
    nv = draw(st.sampled_from([1, 2, 2, 2, 3, 3, 4, 4]))
    names = NAMES[:nv]
    # type discipline: mono = every variable keeps one type (so only 'undefined' problems),
    # mixed = each assignment draws its type
    mono = draw(st.integers(0, 9)) < 2
    fixed = {v: draw(st.sampled_from(TYPES)) for v in names} if mono else None
    budget = [draw(st.integers(5, MAX_STMTS - nv))]
    ndefs = [0]
    recent = [None]
    cond_mode = draw(st.integers(0, 9))  # 0-5 opaque only; 6-7 some literals; 8-9 literals + variable conditions

    def ty_of(v):
        return fixed[v] if mono else draw(st.sampled_from(TYPES))

    def cond():
        r = draw(st.integers(0, 9))
        if literal_conds and cond_mode >= 6 and r < 3:
            return ["lit", draw(st.booleans())]
        if cond_mode >= 8 and r < 5:
            return ["var", draw(st.sampled_from(names))]
        return ["p", draw(st.integers(0, NPARAMS - 1))]

    def block(depth, in_loop):
        k = min(draw(st.integers(1, 4)), budget[0])
        out = []
        for _ in range(k):
            out.append(stmt(depth, in_loop))
            if not dead_code and out[-1][0] in ("ret", "brk", "cnt"):
                break
        return out or [["pass"]]

    def stmt(depth, in_loop):
        budget[0] -= 1
        if depth > MAX_DEPTH or budget[0] <= 0:
            kind = draw(st.sampled_from(_W_LEAF_LOOP if in_loop else _W_LEAF))
        else:
            kind = draw(st.sampled_from(_W_LOOP if in_loop else _W_TOP))
        if kind == "asg":
            v = draw(st.sampled_from(names))
            recent[0] = v
            t = ty_of(v)
            return ["asg", v, t, bool(draw(st.integers(0, 3)) == 0)]
        if kind == "cpy":
            dst = draw(st.sampled_from(names))
            src = draw(st.sampled_from(names))
            if mono and fixed[dst] != fixed[src]:
                return ["asg", dst, fixed[dst]]
            # annotated copies (incl. `a: int = a`) only where every variable keeps one type
            ann = fixed[dst] if (mono and draw(st.booleans())) else None
            return ["cpy", dst, src, ann]
        if kind == "rd":
            # half of the reads look at the variable assigned last in generation order, so that
            # reads behind joins / loops hit the interesting variable often enough
            form = "bare" if draw(st.integers(0, 3)) == 0 else "result"
            if recent[0] is not None and draw(st.booleans()):
                return ["rd", recent[0], form]
            return ["rd", draw(st.sampled_from(names)), form]
        if kind in ("pass", "ret", "brk", "cnt"):
            return [kind]
        if kind == "def":
            ndefs[0] += 1
            reads = []
            for _ in range(draw(st.integers(1, 2))):
                g = None if draw(st.booleans()) else ["p", draw(st.integers(0, NPARAMS - 1))]
                reads.append([draw(st.sampled_from(names)), g])
            return ["def", ndefs[0], reads]
        if kind == "if":
            arms = [[cond(), block(depth + 1, in_loop)]]
            for _ in range(draw(st.sampled_from([0, 0, 0, 1, 1, 2]))):
                if budget[0] <= 0:
                    break
                arms.append([cond(), block(depth + 1, in_loop)])
            orelse = block(depth + 1, in_loop) if (budget[0] > 0 and draw(st.booleans())) else None
            return ["if", arms, orelse]
        if kind == "while":
            c = cond()
            if literal_conds and cond_mode >= 6 and draw(st.integers(0, 3)) == 0:
                c = ["lit", True]
            return ["while", c, block(depth + 1, True)]
        if kind == "for":
            tgt = draw(st.sampled_from([*names, "_i", "_i"]))
            if mono and tgt in names and fixed[tgt] != "int":
                tgt = "_i"
            return ["for", tgt, block(depth + 1, True)]
        raise AssertionError(kind)

    ir = []
    # optional prologue of assignments (otherwise nearly every free read would be undefined)
    pro = draw(st.sampled_from([0, 0, 4, 10, 10, 10] if not mono else [0, 4, 4, 4, 10]))
    for v in names:
        if draw(st.integers(0, 9)) < pro and budget[0] > 1:
            budget[0] -= 1
            ir.append(["asg", v, ty_of(v)])
    while budget[0] > 0:
        ir.append(stmt(1, False))
        if not dead_code and ir[-1][0] == "ret":
            break
    # reads are only of locals: give read-but-never-assigned names an assignment
    missing = sorted(names_read(ir) - names_assigned(ir))
    for v in missing:
        a = ["asg", v, ty_of(v)]
        if draw(st.booleans()):
            ir.insert(0, a)
        else:
            ir.append(a)
    return {"ir": ir, "src": render(ir)}
