"""GenEffects — expression trees over result-reporting helper calls (C05, DESIGN.md 4/C05).

Trees are tuples; `render(tree)` gives source; `issues(tree)` classifies the shapes listed
as known findings so that they can be excluded by construction and probed separately."""
from __future__ import annotations

from hypothesis import strategies as st

HELPERS = '''
from collections.abc import Callable

@guppy.struct
class P:
    a: int
    b: bool

@guppy
def ti(k: int, v: int) -> int:
    result("e", k)
    return v

@guppy
def tb(k: int, v: bool) -> bool:
    result("e", k)
    return v

@guppy
def tf(k: int, v: float) -> float:
    result("e", k)
    return v

@guppy
def g2(a: int, b: int) -> int:
    result("g2", a * 100 + b)
    return a - b

@guppy
def g3(a: int, b: bool, c: int) -> int:
    result("g3", a * 100 + c)
    if b:
        return a + c
    return a - c

@guppy
def bump(a: array[int, 2], v: int) -> None:
    result("bump", v)
    a[0] += v

@guppy
def bump3(u: int, a: array[int, 2], v: int) -> None:
    result("bump3", u * 100 + v)
    a[1] += u - v

@guppy
def adv(sel: array[int, 1], k: int, j: int, v: int) -> int:
    result("e", k)
    sel[0] = j
    return v

@guppy
def inc(v: int) -> int:
    return v + 1

@guppy
def dbl(v: int) -> int:
    return v * 2

@guppy
def pick(k: int, b: bool) -> Callable[[int], int]:
    result("e", k)
    if b:
        return inc
    return dbl

@guppy
def boom(k: int) -> int:
    result("e", k)
    panic("boom")
    return k

@guppy
def mz(k: int) -> bool:
    q = qubit()
    result("e", k)
    return measure(q)
'''

LIFTED = {"ifexp", "and", "or", "chain", "walrus"}


class G:
    def __init__(self, draw, max_depth=4, allow_boom=True, max_leaves=10, allow_known=False):
        self.draw = draw
        self.allow_known = allow_known
        self.k = 0
        self.max_depth = max_depth
        self.allow_boom = allow_boom
        self.boomed = False
        self.leaves = 0
        self.max_leaves = max_leaves
        self.wcount = 0
        self.selval = 0  # current value of sel[0] (programs using `sel`)

    def d(self, s):
        return self.draw(s)

    def pick(self, xs):
        return xs[self.d(st.integers(0, len(xs) - 1))]

    def nk(self):
        self.k += 1
        return self.k

    def seq(self, makers, nl):
        """operands evaluated in sequence in one block: once an operand with an effect has
        been generated, later operands are generated without lifted nodes (unless known
        shapes are allowed)"""
        out = []
        for mk in makers:
            t = mk(nl)
            out.append(t)
            if not self.allow_known and has_effect(t):
                nl = True
        return out

    no_sub2 = False
    allow_mz = True

    def after_borrow(self, depth, nl):
        """an argument evaluated while a row of xss is lent to the same call: reading xss there
        is a (legitimate) run-time borrow panic in Guppy and not in Python, so no xss reads"""
        self.no_sub2 = True
        try:
            return self.int_tree(depth, nl=nl)
        finally:
            self.no_sub2 = False

    def int_tree(self, depth=0, small=None, nl=False, pure=False):
        """small=(lo,hi): value guaranteed within range (used for indices); nl: no lifted
        nodes; pure: no effects"""
        if pure:
            return ("lit", self.d(st.integers(*(small or (-3, 5)))))
        if small is not None:
            lo, hi = small
            r = self.d(st.integers(0, 8))
            v = self.d(st.integers(lo, hi))
            return self.exact_tree(v, r, depth, nl, small)
        if depth >= self.max_depth or self.leaves >= self.max_leaves:
            if self.d(st.integers(0, 3)) == 0:
                return ("lit", self.d(st.integers(-3, 5)))
            self.leaves += 1
            return ("ti", self.nk(), self.d(st.integers(-3, 5)))
        r = self.d(st.integers(0, 17))
        D = depth + 1
        if r <= 2:
            self.leaves += 1
            return ("ti", self.nk(), self.d(st.integers(-3, 5)))
        if r <= 5:
            a, b = self.seq([lambda n: self.int_tree(D, nl=n), lambda n: self.int_tree(D, nl=n)], nl)
            return ("bin", self.pick(["+", "-", "*"]), a, b)
        if r == 6:
            return ("neg", self.int_tree(D, nl=nl))
        if r == 7:
            a, b = self.seq([lambda n: self.int_tree(D, nl=n), lambda n: self.int_tree(D, nl=n)], nl)
            return ("g2", a, b)
        if r == 8:
            a, b, c = self.seq([lambda n: self.int_tree(D, nl=n), lambda n: self.bool_tree(D, nl=n),
                                lambda n: self.int_tree(D, nl=n)], nl)
            return ("g3", a, b, c)
        if r in (9, 10, 16) and not nl:
            return ("ifexp", self.bool_tree(D), self.int_tree(D), self.int_tree(D))
        if r == 11:
            n = self.d(st.integers(2, 3))
            return ("tupidx", self.seq([lambda m: self.int_tree(D, nl=m)] * n, nl), self.d(st.integers(0, n - 1)))
        if r == 12:
            if self.d(st.integers(0, 2)) == 0 and not self.no_sub2:
                # nested subscript read: unless known shapes are allowed, at most one index has an effect
                i1 = self.int_tree(D, small=(0, 1), nl=nl)
                i2 = self.int_tree(D, small=(0, 1), nl=nl, pure=(not self.allow_known and has_effect(i1)))
                return ("sub2", i1, i2)
            return ("sub", self.int_tree(D, small=(0, 2), nl=nl))
        if r == 13:
            a, b = self.seq([lambda n: self.int_tree(D, nl=n), lambda n: self.bool_tree(D, nl=n)], nl)
            return ("field", a, b)
        if r == 14 and not nl:
            self.wcount += 1
            return ("walrus", f"w{self.wcount}", self.int_tree(D))
        if r == 15 and self.allow_boom and not self.boomed and self.d(st.integers(0, 2)) == 0:
            self.boomed = True
            self.leaves += 1
            if self.d(st.booleans()):
                # an implicit run-time check that fails: reading xs (length 3) at an index >= 3
                return ("oob", self.nk(), self.d(st.integers(3, 5)))
            return ("boom", self.nk())
        if r == 17:
            # a call through a function value computed by an effectful callee expression: the callee
            # runs before the argument (the argument is generated without lifted nodes)
            k_ = self.nk()
            self.leaves += 1
            return ("hof", k_, self.d(st.booleans()), self.int_tree(D, nl=True))
        self.leaves += 1
        return ("ti", self.nk(), self.d(st.integers(-3, 5)))

    def exact_leaf(self, v):
        if self.d(st.integers(0, 2)) == 0:
            return ("lit", v)
        self.leaves += 1
        return ("ti", self.nk(), v)

    def exact_tree(self, v, r, depth, nl, small):
        """an int tree whose value is exactly v (index expressions): leaf, literal, arithmetic
        mixing literals and effectful leaves (a + b, a - b with a + b == v / a - b == v), or a
        conditional over in-range alternatives"""
        if r <= 2 or depth >= self.max_depth:
            self.leaves += 1
            return ("ti", self.nk(), v)
        if r == 3:
            return ("lit", v)
        if r in (4, 5):
            a = self.d(st.integers(0, 3))
            left, right = self.exact_leaf(a), self.exact_leaf(v - a)
            return ("bin", "+", left, right)
        if r == 6:
            b = self.d(st.integers(0, 3))
            return ("bin", "-", self.exact_leaf(v + b), self.exact_leaf(b))
        if nl:
            self.leaves += 1
            return ("ti", self.nk(), v)
        c = self.bool_tree(depth + 1)
        return ("ifexp", c, self.int_tree(depth + 1, small), self.int_tree(depth + 1, small))

    def bool_tree(self, depth=0, nl=False):
        if depth >= self.max_depth or self.leaves >= self.max_leaves:
            if self.d(st.integers(0, 3)) == 0:
                return ("blit", self.d(st.booleans()))
            self.leaves += 1
            return ("tb", self.nk(), self.d(st.booleans()))
        r = self.d(st.integers(0, 14))
        D = depth + 1
        if r <= 2:
            self.leaves += 1
            return ("tb", self.nk(), self.d(st.booleans()))
        if r == 3:
            return ("not", self.bool_tree(D, nl=nl))
        if r <= 6 and not nl:
            n = self.d(st.integers(2, 3))
            return (self.pick(["and", "or"]), [self.bool_tree(D) for _ in range(n)])
        if r <= 8:
            a, b = self.seq([lambda n: self.int_tree(D, nl=n), lambda n: self.int_tree(D, nl=n)], nl)
            return ("cmp", self.pick(["<", "<=", "==", "!=", ">", ">="]), a, b)
        if r <= 10 and not nl:
            n = self.d(st.integers(3, 4))
            if self.allow_known:
                ops = [self.int_tree(D) for _ in range(n)]
            else:
                # middle operands pure (known finding: evaluated twice); first operand then may
                # not precede a lifted node: the last operand is generated without lifted nodes
                first = self.int_tree(D)
                mids = [self.int_tree(D, pure=True) for _ in range(n - 2)]
                last = self.int_tree(D, nl=has_effect(first))
                ops = [first, *mids, last]
            return ("chain", [self.pick(["<", "<=", "==", "!=", ">", ">="]) for _ in range(n - 1)], ops)
        if r == 11 and not nl:
            return ("ifexp", self.bool_tree(D), self.bool_tree(D), self.bool_tree(D))
        if r == 12 and self.allow_mz:
            self.leaves += 1
            return ("mz", self.nk())
        if r == 13:
            a, b = self.seq([lambda n: self.float_tree(D, nl=n), lambda n: self.float_tree(D, nl=n)], nl)
            return ("fcmp", self.pick(["<", ">=", "=="]), a, b)
        self.leaves += 1
        return ("tb", self.nk(), self.d(st.booleans()))

    def float_tree(self, depth=0, nl=False):
        if depth >= self.max_depth or self.leaves >= self.max_leaves or self.d(st.integers(0, 2)) == 0:
            self.leaves += 1
            return ("tf", self.nk(), self.pick([0.5, 1.5, -2.0, 3.25]))
        r = self.d(st.integers(0, 2))
        D = depth + 1
        if r == 0:
            a, b = self.seq([lambda n: self.float_tree(D, nl=n), lambda n: self.float_tree(D, nl=n)], nl)
            return ("fbin", self.pick(["+", "-", "*"]), a, b)
        if r == 1 and not nl:
            return ("ifexp", self.bool_tree(D), self.float_tree(D), self.float_tree(D))
        return ("flit", self.pick([0.5, 1.5, -2.0]))


def render(t):
    k = t[0]
    if k == "ti":
        return f"ti({t[1]}, {t[2]})" if t[2] >= 0 else f"ti({t[1]}, ({t[2]}))"
    if k == "tb":
        return f"tb({t[1]}, {t[2]})"
    if k == "tf":
        return f"tf({t[1]}, {t[2]})" if t[2] >= 0 else f"tf({t[1]}, ({t[2]}))"
    if k == "lit":
        return str(t[1]) if t[1] >= 0 else f"({t[1]})"
    if k == "flit":
        return str(t[1]) if t[1] >= 0 else f"({t[1]})"
    if k == "blit":
        return str(t[1])
    if k in ("bin", "fbin"):
        return f"({render(t[2])} {t[1]} {render(t[3])})"
    if k == "neg":
        return f"(-{render(t[1])})"
    if k == "g2":
        return f"g2({render(t[1])}, {render(t[2])})"
    if k == "g3":
        return f"g3({render(t[1])}, {render(t[2])}, {render(t[3])})"
    if k == "ifexp":
        return f"({render(t[2])} if {render(t[1])} else {render(t[3])})"
    if k == "tupidx":
        return "(" + ", ".join(render(x) for x in t[1]) + f")[{t[2]}]"
    if k == "sub":
        return f"xs[{render(t[1])}]"
    if k == "sub2":
        return f"xss[{render(t[1])}][{render(t[2])}]"
    if k == "field":
        return f"P({render(t[1])}, {render(t[2])}).a"
    if k == "walrus":
        return f"({t[1]} := {render(t[2])})"
    if k == "boom":
        return f"boom({t[1]})"
    if k == "oob":
        return f"xs[ti({t[1]}, {t[2]})]"
    if k == "hof":
        return f"pick({t[1]}, {t[2]})({render(t[3])})"
    if k == "adv":
        return f"adv(sel, {t[1]}, {t[2]}, {t[3]})" if t[3] >= 0 else f"adv(sel, {t[1]}, {t[2]}, ({t[3]}))"
    if k == "mz":
        return f"mz({t[1]})"
    if k == "not":
        return f"(not {render(t[1])})"
    if k in ("and", "or"):
        return "(" + f" {k} ".join(render(x) for x in t[1]) + ")"
    if k in ("cmp", "fcmp"):
        return f"({render(t[2])} {t[1]} {render(t[3])})"
    if k == "chain":
        s = render(t[2][0])
        for op, x in zip(t[1], t[2][1:]):
            s += f" {op} {render(x)}"
        return f"({s})"
    raise ValueError(t)


def children(t):
    """operands in Python evaluation order"""
    k = t[0]
    if k in ("ti", "tb", "tf", "lit", "flit", "blit", "boom", "mz", "adv", "oob"):
        return []
    if k == "hof":
        return [t[3]]
    if k in ("bin", "fbin", "cmp", "fcmp"):
        return [t[2], t[3]]
    if k in ("neg", "not", "sub"):
        return [t[1]]
    if k == "sub2":
        return [t[1], t[2]]
    if k == "g2":
        return [t[1], t[2]]
    if k == "g3":
        return [t[1], t[2], t[3]]
    if k == "ifexp":
        return [t[1], t[2], t[3]]
    if k == "tupidx":
        return list(t[1])
    if k == "field":
        return [t[1], t[2]]
    if k == "walrus":
        return [t[2]]
    if k in ("and", "or"):
        return list(t[1])
    if k == "chain":
        return list(t[2])
    raise ValueError(t)


def has_effect(t):
    if t[0] in ("ti", "tb", "tf", "boom", "mz", "g2", "g3", "adv", "oob", "hof"):
        return True
    return any(has_effect(c) for c in children(t))


def has_lifted(t):
    if t[0] in LIFTED:
        return True
    return any(has_lifted(c) for c in children(t))


def count_effect_leaves(t):
    n = 1 if t[0] in ("ti", "tb", "tf", "boom", "mz", "adv", "oob", "hof") else 0
    return n + sum(count_effect_leaves(c) for c in children(t))


def under_shortcircuit(t, inside=False):
    """is some effectful leaf under a short-circuit / conditional / chained node?"""
    if t[0] in ("ti", "tb", "tf", "boom", "mz", "adv", "oob"):
        return inside
    ins = inside or t[0] in ("ifexp", "and", "or", "chain")
    return any(under_shortcircuit(c, ins) for c in children(t))


def issues(t):
    """set of known-finding classes this tree falls into (conservative):
    'chain_middle_effect': a chained comparison whose middle operand has an effect
    'effect_before_lifted': in a compound evaluated in one go, an operand with an effect is
        evaluated before a sibling operand that contains a lifted node
        (IfExp / BoolOp / chained Compare / walrus)"""
    out = set()
    k = t[0]
    cs = children(t)
    if k == "chain":
        for mid in t[2][1:-1]:
            if has_effect(mid):
                out.add("chain_middle_effect")
    if k == "sub2" and has_effect(t[1]) and has_effect(t[2]):
        out.add("nested_subscript_order")
    if k == "hof" and has_lifted(t[3]):
        out.add("effect_before_lifted")  # the callee's effect precedes a lifted node in the argument
    if k not in ("ifexp", "and", "or"):
        # operands evaluated in sequence in the same block
        for i, a in enumerate(cs):
            if has_effect(a) and any(has_lifted(b) for b in cs[i + 1:]):
                out.add("effect_before_lifted")
    for c in cs:
        out |= issues(c)
    return out


def seq_issues(trees):
    """several expressions evaluated in sequence within ONE statement (call arguments, tuple
    elements, subscript + value)"""
    out = set()
    for i, a in enumerate(trees):
        out |= issues(a)
        if has_effect(a) and any(has_lifted(b) for b in trees[i + 1:]):
            out.add("effect_before_lifted")
    return out


ALL_KINDS = ["assign", "if", "while", "return", "args", "aug", "setitem", "augitem", "augitem",
             "augitem2", "borrowarg", "result", "tuple", "assign", "augsel", "borrow3", "unpack_sub"]
#: statements whose subject is an array element place (C19)
PLACE_KINDS = ["setitem", "augitem", "augitem2", "borrowarg", "augsel", "augsel", "borrow3", "borrow3", "unpack_sub", "unpack_sub"]


def _one(draw, allow_known=False, max_depth=4, prefix="", allow_boom=True, kinds=None, classical=False):
    """-> dict(body=<helper fdefs + main function named {prefix}main>, labels, nontrivial, excluded)"""
    g = G(draw, max_depth=max_depth, allow_known=allow_known, allow_boom=allow_boom and not classical)
    g.allow_mz = not classical
    lines = ["xs = array(10, 20, 30)", "xss = array(array(1, 2), array(3, 4))"]
    labels = set()
    n_stmts = draw(st.integers(1, 4))
    max_leafcount = 0
    sc = False
    known = set()
    fdefs = []
    for si in range(n_stmts):
        g.leaves = 0
        kind = draw(st.sampled_from(kinds or ALL_KINDS))
        labels.add("stmt:" + kind)
        for _attempt in range(6):
            saved = (g.k, g.boomed, g.wcount)
            if kind == "assign":
                ts = [g.int_tree()]
                st_lines = [f"x{si} = {render(ts[0])}", f'result("v", x{si})']
                iss = issues(ts[0])
            elif kind == "if":
                ts = [g.bool_tree()]
                st_lines = [f"if {render(ts[0])}:", '    result("br", 1)', "else:", '    result("br", 0)']
                iss = issues(ts[0])
            elif kind == "while":
                ts = [g.bool_tree()]
                st_lines = [f"fuel{si} = {draw(st.integers(1, 3))}",
                            f"while fuel{si} > 0 and {render(ts[0])}:",
                            f"    fuel{si} -= 1", f'    result("it", fuel{si})']
                iss = issues(("and", [("blit", True), ts[0]]))
            elif kind == "return":
                ts = [g.int_tree()]
                fdefs.append(f"@guppy\ndef {prefix}f{si}(xs: array[int, 3], xss: array[array[int, 2], 2]) -> int:\n    return {render(ts[0])}\n")
                st_lines = [f'result("r", {prefix}f{si}(xs, xss))']
                iss = issues(ts[0])
            elif kind == "args":
                ts = g.seq([lambda n: g.int_tree(1, nl=n), lambda n: g.bool_tree(1, nl=n), lambda n: g.int_tree(1, nl=n)], False)
                st_lines = [f'result("v", g3({render(ts[0])}, {render(ts[1])}, {render(ts[2])}))']
                iss = seq_issues(ts)
            elif kind == "aug":
                ts = [g.int_tree()]
                st_lines = [f"y{si} = {draw(st.integers(0, 5))}", f"y{si} {draw(st.sampled_from(['+=', '-=', '*=']))} {render(ts[0])}",
                            f'result("v", y{si})']
                iss = issues(ts[0])
            elif kind == "setitem":
                val, idx = g.seq([lambda n: g.int_tree(1, nl=n), lambda n: g.int_tree(1, small=(0, 2), nl=n)], False)
                ts = [idx, val]
                st_lines = [f"xs[{render(ts[0])}] = {render(ts[1])}", 'result("xs", xs)']
                # Python evaluates the value first, then the index
                iss = seq_issues([ts[1], ts[0]])
            elif kind == "augitem":
                # container and index are evaluated (into a temporary) before the value is built, so an
                # effectful index followed by a lifted value is NOT in the known reordering class
                ts = [g.int_tree(1, small=(0, 2)), g.int_tree(1)]
                st_lines = [f"xs[{render(ts[0])}] {draw(st.sampled_from(['+=', '-=', '*=']))} {render(ts[1])}", 'result("xs", xs)']
                iss = issues(ts[0]) | issues(ts[1])
            elif kind == "augitem2":
                # nested subscript target: both indices once, in order, before the value
                ts = [g.int_tree(2, small=(0, 1)), g.int_tree(2, small=(0, 1)), g.int_tree(1)]
                st_lines = [f"xss[{render(ts[0])}][{render(ts[1])}] += {render(ts[2])}", 'result("xss0", xss[0])', 'result("xss1", xss[1])']
                iss = issues(ts[0]) | issues(ts[1]) | issues(ts[2])
            elif kind == "borrowarg":
                # a borrowed subscript place as argument (its index is evaluated in argument order)
                # followed / preceded by other effectful arguments
                form = draw(st.integers(0, 1))
                if form == 0:
                    ts = g.seq([lambda n: g.int_tree(2, small=(0, 1), nl=True), lambda n: g.after_borrow(1, n)], False)
                    st_lines = [f"bump(xss[{render(ts[0])}], {render(ts[1])})"]
                else:
                    ts = g.seq([lambda n: g.int_tree(1, nl=n), lambda n: g.int_tree(2, small=(0, 1), nl=True), lambda n: g.after_borrow(1, n)], False)
                    st_lines = [f"bump3({render(ts[0])}, xss[{render(ts[1])}], {render(ts[2])})"]
                st_lines += ['result("xss0", xss[0])', 'result("xss1", xss[1])']
                iss = seq_issues(ts)
            elif kind == "augsel":
                # the index is itself a place (`sel[0]`) that the right-hand side changes: the element
                # read and the element written are the one selected when the statement starts
                two_d = g.selval <= 1 and draw(st.booleans())
                j = draw(st.integers(0, 1 if two_d else 2))
                a = ("adv", g.nk(), j, draw(st.integers(-3, 5)))
                form = draw(st.integers(0, 2))
                other = g.int_tree(2, nl=True)
                val = a if form == 0 else ("bin", "+", a, other) if form == 1 else ("bin", "-", other, a)
                ts = [val]
                op = draw(st.sampled_from(["+=", "-=", "*="]))
                if two_d:
                    st_lines = [f"xss[sel[0]][{draw(st.integers(0, 1))}] {op} {render(val)}",
                                'result("xss0", xss[0])', 'result("xss1", xss[1])', 'result("sel", sel[0])']
                else:
                    st_lines = [f"xs[sel[0]] {op} {render(val)}", 'result("xs", xs)', 'result("sel", sel[0])']
                iss = issues(val)
                g.selval_next = j
            elif kind == "borrow3":
                # an element two subscript levels down that is not copyable (an inner array) lent to a
                # call: both indices are evaluated once and it is given back to the slot it came from
                i1 = g.int_tree(2, small=(0, 1), nl=True)
                i2 = g.int_tree(2, small=(0, 1), nl=True, pure=(not allow_known and has_effect(i1)))
                v = g.int_tree(1, nl=True)
                ts = [i1, i2, v]
                st_lines = [f"bump(xsss[{render(i1)}][{render(i2)}], {render(v)})"]
                st_lines += [f'result("xsss{a_}{b_}", xsss[{a_}][{b_}])' for a_ in (0, 1) for b_ in (0, 1)]
                iss = seq_issues(ts)
                if has_effect(i1) and has_effect(i2):
                    iss.add("nested_subscript_order")
            elif kind == "unpack_sub":
                # unpacking assignment with a subscript target whose index variable is re-bound by another
                # target of the same statement: targets are assigned left to right, each index read when
                # its target is reached
                i0, j = draw(st.integers(0, 2)), draw(st.integers(0, 2))
                ts = g.seq([lambda n: ("ti", g.nk(), j), lambda n: g.int_tree(1, nl=True)], False)
                first = draw(st.booleans())
                tg = f"iu{si}, xs[iu{si}]" if first else f"xs[iu{si}], iu{si}"
                rhs = f"{render(ts[0])}, {render(ts[1])}" if first else f"{render(ts[1])}, {render(ts[0])}"
                st_lines = [f"iu{si} = {i0}", f"{tg} = {rhs}", 'result("xs", xs)', f'result("iu", iu{si})']
                iss = seq_issues(ts if first else [ts[1], ts[0]])
            elif kind == "result":
                ts = [g.int_tree()]
                st_lines = [f'result("v", {render(ts[0])})']
                iss = issues(ts[0])
            else:  # tuple
                ts = g.seq([lambda n: g.int_tree(1, nl=n), lambda n: g.bool_tree(1, nl=n)], False)
                st_lines = [f"p{si}, q{si} = {render(ts[0])}, {render(ts[1])}", f'result("v", p{si})', f'result("w", q{si})']
                iss = seq_issues(ts)
            if kind != "augsel":
                g.selval_next = g.selval
            if iss and not allow_known:
                # regenerate (bounded); count exclusion
                known |= iss
                g.k, g.boomed, g.wcount = saved
                g.leaves = 0
                g.max_depth = max(1, g.max_depth - 1)
                continue
            break
        else:
            ts = [("ti", g.nk(), 1)]
            st_lines = [f'result("v", {render(ts[0])})']
            iss = set()
        g.max_depth = max_depth
        if kind == "augsel" and "sel = array(0)" not in lines:
            lines.insert(2, "sel = array(0)")
        if kind == "augsel" and ts and ts[0][0] != "ti":
            g.selval = g.selval_next
        if kind == "borrow3" and not any(l.startswith("xsss = ") for l in lines):
            lines.insert(2, "xsss = array(array(array(1, 2), array(3, 4)), array(array(5, 6), array(7, 8)))")
        if iss:
            labels |= {"known:" + i for i in iss}
        lines += st_lines
        for t in ts:
            max_leafcount = max(max_leafcount, sum(count_effect_leaves(x) for x in ts))
            sc = sc or under_shortcircuit(t)
            for name in ("ifexp", "and", "or", "chain", "walrus", "boom", "mz", "sub", "field", "tupidx", "g2", "g3", "adv", "oob", "hof"):
                if _contains(t, name):
                    labels.add("has:" + name)
    if allow_boom and not classical and not g.boomed and draw(st.booleans()):
        # the program ends in a run-time failure of an implicit check (array bounds) or an explicit panic,
        # followed by statements that must not run: nothing of them may show up in the result stream
        g.boomed = True
        k_ = g.nk()
        form = draw(st.integers(0, 3))
        bad = draw(st.integers(3, 6))
        lines += {0: [f"yb_ = xs[ti({k_}, {bad})]", 'result("after", 1)', 'result("after", yb_)'],
                  1: [f"xs[ti({k_}, {bad})] = 7", 'result("after", 2)', 'result("xs", xs)'],
                  2: [f"xs[ti({k_}, {bad})] += 1", 'result("after", 3)'],
                  3: [f"yb_ = boom({k_})", 'result("after", 4)', 'result("after", yb_)']}[form]
        labels.add("final_panic:" + ["oob_read", "oob_write", "oob_aug", "boom"][form])
    body = "\n".join("    " + l for l in lines)
    src = "\n".join(fdefs) + f"\n@guppy\ndef {prefix}main() -> None:\n" + body + "\n"
    return {"body": src, "labels": sorted(labels), "nontrivial": max_leafcount >= 3 and sc,
            "excluded": sorted(known), "boom": g.boomed}


@st.composite
def programs(draw, allow_known=False, max_depth=4, kinds=None):
    """-> dict(src, labels, nontrivial, excluded)"""
    r = _one(draw, allow_known, max_depth, kinds=kinds)
    r["src"] = HELPERS + "\n" + r.pop("body")
    return r


@st.composite
def program_batches(draw, k=5, allow_known=False, max_depth=4, kinds=None, classical=False):
    """k programs in one module (one selene build); only the last one may panic.
    -> dict(src, parts=[{src, labels, nontrivial, excluded}])"""
    parts = []
    bodies = []
    for i in range(k):
        r = _one(draw, allow_known, max_depth, prefix=f"p{i}_", allow_boom=(i == k - 1), kinds=kinds, classical=classical)
        b = r.pop("body")
        bodies.append(b)
        r["src"] = HELPERS + "\n" + b + f"\n@guppy\ndef main() -> None:\n    p{i}_main()\n"
        parts.append(r)
    main = "@guppy\ndef main() -> None:\n" + "".join(f"    p{i}_main()\n" for i in range(k))
    return {"src": HELPERS + "\n" + "\n".join(bodies) + "\n" + main, "parts": parts}


def _contains(t, name):
    if t[0] == name:
        return True
    return any(_contains(c, name) for c in children(t))
