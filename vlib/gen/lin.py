"""GenLin — generator of core-fragment quantum programs for C06 (DESIGN.md 4/C06).

Programs are an IR (see vlib/linmodel.py for the grammar) rendered to Guppy source.  They are
built *valid by construction* by a forward generator that tracks, for every leaf place, whether
it is undefined / live / moved at the current point (definite knowledge: at joins and loop
heads the generator itself emits the statements that make both sides agree) and only emits
legal uses; at every exit all owned / local qubits are consumed or returned and all borrowed
ones are live.  `edited_functions()` then perturbs the IR with 0-3 edits.

Public API
  HEADER                      source of the shared helper module (structs + declared callees)
  valid_functions(...)        strategy -> fn IR, valid by construction (for C01 and others)
  edited_functions(...)       strategy -> {"fn", "base", "edits"}
  render(fn, name="f")        -> source of one @guppy function (no header)
  full_source(fn, name="f")   -> PRELUDE-less self-contained module text (HEADER + function)
  features(fn)                -> set of labels (asymmetric branch/loop, struct, tuple, ...)
  stale_struct_wire(fn)       -> True if fn is in the known-finding input class
"""
from __future__ import annotations

import copy

from hypothesis import strategies as st

HEADER = '''from guppylang.std.quantum import h, cx


@guppy.struct
class S2:
    q1: qubit
    q2: qubit


@guppy.struct
class SI:
    q: qubit
    n: int


@guppy.declare
def use_int(n: int) -> None: ...


@guppy.declare
def own1(q: qubit @owned) -> None: ...


@guppy.declare
def own_ret(q: qubit @owned) -> qubit: ...


@guppy.declare
def bor1(q: qubit) -> None: ...


@guppy.declare
def bor2(q: qubit, r: qubit) -> None: ...


@guppy.declare
def bor_ret(q: qubit) -> qubit: ...


@guppy.declare
def mix(q: qubit, r: qubit @owned) -> None: ...


@guppy.declare
def own_s2(s: S2 @owned) -> None: ...


@guppy.declare
def bor_s2(s: S2) -> None: ...


@guppy.declare
def own_si(s: SI @owned) -> None: ...


@guppy.declare
def bor_si(s: SI) -> None: ...


@guppy.declare
def own_t(t: tuple[qubit, qubit] @owned) -> None: ...


@guppy.declare
def bor_t(t: tuple[qubit, qubit]) -> None: ...
'''

HELPER_NAMES = ["use_int", "h", "cx", "S2", "SI", "own1", "own_ret", "bor1", "bor2", "bor_ret", "mix", "own_s2", "bor_s2",
                "own_si", "bor_si", "own_t", "bor_t"]

TY_SRC = {"Q": "qubit", "T": "tuple[qubit, qubit]", "S2": "S2", "SI": "SI", "I": "int", "B": "bool", None: "None"}
FIELDS = {"S2": ["q1", "q2"], "SI": ["q"]}  # qubit fields
CONDS = ["b0", "b1", "b2"]

U, L, M = "U", "L", "M"


# ------------------------------------------------------------------------------- rendering
def r_place(p):
    if p[0] == "v":
        return p[1]
    if p[0] == "f":
        return f"{p[1]}.{p[2]}"
    if p[0] == "i":
        return f"{p[1]}[{p[2]}]"
    raise ValueError(p)


def r_expr(e, top=False):
    k = e[0]
    if k in ("v", "f", "i"):
        return r_place(e)
    if k == "new":
        return "qubit()"
    if k == "int":
        return str(e[1])
    if k == "tup":
        inner = ", ".join(r_expr(x) for x in e[1])
        return inner if top else f"({inner})"
    if k == "struct":
        return f"{e[1]}({', '.join(r_expr(x) for x in e[2])})"
    if k == "call":
        return f"{e[1]}({', '.join(r_expr(x) for x in e[2])})"
    raise ValueError(e)


def r_target(t):
    if t[0] == "pat":
        return ", ".join(r_target(x) for x in t[1])
    return r_place(t)


def r_block(stmts, ind, out):
    pad = "    " * ind
    if not stmts:
        out.append(pad + "pass")
        return
    for s in stmts:
        k = s[0]
        if k == "pass":
            out.append(pad + "pass")
        elif k == "assign":
            # a tuple on the right of a single (non-pattern) target keeps its parentheses
            out.append(f"{pad}{r_target(s[1])} = {r_expr(s[2], top=s[1][0] == 'pat')}")
        elif k == "expr":
            out.append(pad + r_expr(s[1]))
        elif k == "retype":
            out.append(f"{pad}{s[1]} = 0")
            if len(s) > 2 and s[2]:
                out.append(f"{pad}use_int({s[1]})")
        elif k == "if":
            out.append(f"{pad}if {s[1]}:")
            r_block(s[2], ind + 1, out)
            if s[3]:
                out.append(f"{pad}else:")
                r_block(s[3], ind + 1, out)
        elif k == "while":
            out.append(f"{pad}while {s[1]}:")
            r_block(s[2], ind + 1, out)
        elif k == "break":
            out.append(pad + "break")
        elif k == "continue":
            out.append(pad + "continue")
        elif k == "return":
            out.append(pad + ("return" if s[1] is None else "return " + r_expr(s[1], top=True)))
        else:
            raise ValueError(s)


def render(fn, name="f"):
    ps = []
    for n, ty, mode in fn["params"]:
        ps.append(f"{n}: {TY_SRC[ty]}" + (" @owned" if mode == "owned" else ""))
    out = ["@guppy", f"def {name}({', '.join(ps)}) -> {TY_SRC[fn['ret']]}:"]
    r_block(fn["body"], 1, out)
    return "\n".join(out) + "\n"


def full_source(fn, name="f"):
    return HEADER + "\n\n" + render(fn, name)


# ------------------------------------------------------------------------------- IR utilities
def all_blocks(fn):
    """[(block_list, loop_depth, nesting_depth)] of every statement list in the tree."""
    res = []

    def walk(b, ld, nd):
        res.append((b, ld, nd))
        for s in b:
            if s[0] == "if":
                walk(s[2], ld, nd + 1)
                walk(s[3], ld, nd + 1)
            elif s[0] == "while":
                walk(s[2], ld + 1, nd + 1)

    walk(fn["body"], 0, 0)
    return res


def count_stmts(b):
    n = 0
    for s in b:
        n += 1
        if s[0] == "if":
            n += count_stmts(s[2]) + count_stmts(s[3])
        elif s[0] == "while":
            n += count_stmts(s[2])
    return n


def max_depth(b):
    d = 0
    for s in b:
        if s[0] == "if":
            d = max(d, 1 + max(max_depth(s[2]), max_depth(s[3])))
        elif s[0] == "while":
            d = max(d, 1 + max_depth(s[2]))
    return d


def falls_through(s):
    k = s[0]
    if k in ("break", "continue", "return"):
        return False
    if k == "if":
        return block_falls(s[2]) or block_falls(s[3])
    return True  # a while with an opaque condition can always be skipped / left


def block_falls(b):
    return all(falls_through(s) for s in b)


def truncate_dead(b):
    """Drop statements that follow a statement which cannot complete normally (in place)."""
    for i, s in enumerate(b):
        if s[0] == "if":
            truncate_dead(s[2])
            truncate_dead(s[3])
        elif s[0] == "while":
            truncate_dead(s[2])
        if not falls_through(s):
            del b[i + 1:]
            break
    return b


def jumps_ok(fn):
    """break/continue only inside loops; every path of a function with a result returns."""
    def walk(b, ld):
        for s in b:
            if s[0] in ("break", "continue") and ld == 0:
                return False
            if s[0] == "if" and not (walk(s[2], ld) and walk(s[3], ld)):
                return False
            if s[0] == "while" and not walk(s[2], ld + 1):
                return False
        return True

    if not walk(fn["body"], 0):
        return False
    return not (fn["ret"] is not None and block_falls(fn["body"]))


def _moves_of_expr(e, acc):
    k = e[0]
    if k in ("v", "f", "i"):
        acc.append(("use", r_place(e)))
    elif k == "tup":
        for x in e[1]:
            _moves_of_expr(x, acc)
    elif k == "struct":
        for x in e[2]:
            _moves_of_expr(x, acc)
    elif k == "call":
        from vlib.linmodel import FUNCS

        for (_, mode), a in zip(FUNCS[e[1]][0], e[2]):
            if mode == "own":
                _moves_of_expr(a, acc)


def _targets(t, acc):
    if t[0] == "pat":
        for x in t[1]:
            _targets(x, acc)
    else:
        acc.append(("def", r_place(t)))


def effects(b):
    """sorted list of (use|def|exit, place) over a block: how it treats the qubit places."""
    acc = []
    for s in b:
        k = s[0]
        if k == "assign":
            _moves_of_expr(s[2], acc)
            _targets(s[1], acc)
        elif k == "expr":
            _moves_of_expr(s[1], acc)
        elif k == "return":
            if s[1] is not None:
                _moves_of_expr(s[1], acc)
            acc.append(("exit", "return"))
        elif k in ("break", "continue"):
            acc.append(("exit", k))
        elif k == "if":
            acc += effects(s[2]) + effects(s[3])
        elif k == "while":
            acc += effects(s[2])
    return sorted(acc)


def features(fn):
    """labels + the asymmetry flag of the non-triviality rule."""
    labs = set()

    def walk(b, ld):
        for s in b:
            k = s[0]
            if k == "if":
                labs.add("if")
                if effects(s[2]) != effects(s[3]):
                    labs.add("asym_branch")
                walk(s[2], ld)
                walk(s[3], ld)
            elif k == "while":
                labs.add("while")
                if any(e[0] in ("use", "def") for e in effects(s[2])):
                    labs.add("asym_loop")
                if ld >= 1:
                    labs.add("nested_loop")
                walk(s[2], ld + 1)
            elif k in ("break", "continue"):
                labs.add(k)
            elif k == "return" and (ld > 0 or b is not fn["body"]):
                labs.add("early_return" if ld == 0 else "return_in_loop")

    walk(fn["body"], 0)
    text = render(fn)
    for tok, lab in ((".q", "field"), ("[0]", "tuple_index"), ("[1]", "tuple_index"), ("S2(", "struct_ctor"),
                     ("SI(", "struct_ctor"), ("own_s2(", "struct_whole"), ("bor_s2(", "struct_whole"),
                     ("own_si(", "struct_whole"), ("bor_si(", "struct_whole"), ("own_t(", "tuple_whole"),
                     ("bor_t(", "tuple_whole"), (".n", "int_read")):
        if tok in text:
            labs.add(lab)
    for ln in text.splitlines():
        s = ln.strip()
        if "=" in s and s.split("=")[0].strip().count(".") and "," not in s.split("=")[0]:
            labs.add("field_assign")
        if "=" in s and "," in s.split("=")[0]:
            labs.add("unpack")
    if any(m == "borrowed" for _, ty, m in fn["params"] if ty != "B"):
        labs.add("borrowed_param")
    if any(m == "borrowed" and ty in ("S2", "SI", "T") for _, ty, m in fn["params"]):
        labs.add("borrowed_aggregate")
    return labs


def stale_struct_wire(fn):
    """Known-finding input class (see checks/c06.py): inside one straight-line statement
    sequence a struct variable is passed as a whole to an *owning* callee and later used as
    a whole again without a whole re-assignment in between (its fields were re-assigned one
    by one)."""
    from vlib.linmodel import FUNCS

    structs = {n for n, ty, _ in fn["params"] if ty in ("S2", "SI")} | \
              {n for n, ty in fn["locals"].items() if ty in ("S2", "SI")}

    def whole_uses(e, acc):
        """[(var, owning?)] whole-variable uses of struct vars in evaluation order"""
        k = e[0]
        if k == "v" and e[1] in structs:
            acc.append((e[1], True))
        elif k == "tup":
            for x in e[1]:
                whole_uses(x, acc)
        elif k == "struct":
            for x in e[2]:
                whole_uses(x, acc)
        elif k == "call":
            for (_, mode), a in zip(FUNCS[e[1]][0], e[2]):
                if a[0] == "v" and a[1] in structs:
                    acc.append((a[1], mode == "own"))
                else:
                    whole_uses(a, acc)

    def scan(b, stale):
        """-> (found, stale set at the end | None if the block cannot complete normally).  The
        set is carried exactly as far as Guppy's CFG builder keeps statements in one basic block:
        branches and loop heads/bodies start fresh blocks, a join of two completing branches
        starts a fresh block, but after an `if` of which only one branch completes the code goes
        on in that branch's block."""
        stale = set(stale)
        for s in b:
            k = s[0]
            if k in ("assign", "expr", "return"):
                e = s[2] if k == "assign" else s[1]
                uses = []
                if e is not None:
                    whole_uses(e, uses)
                for x, own in uses:
                    if x in stale:
                        return True, None
                    if own:
                        stale.add(x)
                    else:
                        stale.discard(x)  # handed back: re-assigned as a whole
                if k == "assign":
                    tg = []
                    _targets(s[1], tg)
                    for _, txt in tg:
                        stale.discard(txt)  # whole re-assignment (`s = ...`)
                if k == "return":
                    return False, None
            elif k in ("break", "continue"):
                return False, None
            elif k == "if":
                f1, o1 = scan(s[2], ())
                f2, o2 = scan(s[3], ())
                if f1 or f2:
                    return True, None
                if o1 is not None and o2 is not None:
                    stale = set()
                elif o1 is not None:
                    stale = o1
                elif o2 is not None:
                    stale = o2
                else:
                    return False, None
            elif k == "while":
                f1, _ = scan(s[2], ())
                if f1:
                    return True, None
                stale = set()
        return False, stale

    return scan(fn["body"], ())[0]


# ------------------------------------------------------------------------------- generator
# All random choices come from one random.Random per program that Hypothesis creates and seeds
# (deterministic under @seed).  Plain Hypothesis integer draws were measured to be strongly biased
# towards their minimum for draws late in a long example (edit count 0 in 47% instead of 22%).
RND = st.randoms(use_true_random=True)


class Gen:
    """Forward generator.  `self.stt[leaf]` in {U, L, M} is definite knowledge about the current
    program point; leaf = (root, kind, sel)."""

    def __init__(self, rnd, max_depth=3, size=14):
        self.rnd = rnd  # random.Random seeded by Hypothesis (st.randoms(use_true_random=True))
        self.max_depth = max_depth
        self.budget = size
        self.n_int = 0

    # --- drawing helpers
    def integer(self, lo, hi):
        return self.rnd.randint(lo, hi)

    def chance(self, pct):
        return self.rnd.randrange(100) < pct

    def pick(self, xs):
        return xs[self.rnd.randrange(len(xs))]

    def weighted(self, pairs):
        tot = sum(w for _, w in pairs)
        r = self.rnd.randrange(tot)
        for x, w in pairs:
            if r < w:
                return x
            r -= w
        raise AssertionError

    # --- signature
    def signature(self):
        nq = self.integer(2, 4)
        self.types = {}
        self.mode = {}
        params = []
        locals_ = {}
        roots = [(f"q{i}", "Q") for i in range(nq)]
        self.struct_ty = None
        if self.chance(70):
            self.struct_ty = self.pick(["S2", "S2", "SI"])
            roots.append(("s", self.struct_ty))
        self.has_t = self.chance(50)
        if self.has_t:
            roots.append(("t", "T"))
        for b in CONDS:
            params.append([b, "B", "plain"])
        for name, ty in roots:
            role = self.weighted([("local", 45), ("owned", 30), ("borrowed", 25)])
            self.types[name] = ty
            self.mode[name] = role
            if role == "local":
                locals_[name] = ty
            else:
                params.append([name, ty, role])
        rets = [(None, 40), ("Q", 22), ("T", 14)]
        if self.struct_ty:
            rets.append((self.struct_ty, 18))
        self.ret = self.weighted(rets)
        self.params, self.locals = params, locals_
        # state
        self.stt = {}
        for name, ty in roots:
            init = U if self.mode[name] == "local" else L
            for lf in self.leaves(name):
                self.stt[lf] = init
        if self.struct_ty == "SI":
            self.int_defined = self.mode["s"] != "local"

    def leaves(self, x):
        ty = self.types[x]
        if ty == "Q":
            return [(x, "", "")]
        if ty == "T":
            return [(x, "i", 0), (x, "i", 1)]
        return [(x, "f", f) for f in FIELDS[ty]]

    @staticmethod
    def place(leaf):
        x, kind, sel = leaf
        return ["v", x] if kind == "" else [kind, x, sel]

    def borrowed(self, x):
        return self.mode[x] == "borrowed"

    def root_defined(self, x):
        return all(self.stt[lf] != U for lf in self.leaves(x))

    # --- place queries
    def live_leaves(self):
        return [lf for lf, s in self.stt.items() if s == L]

    def consumable(self):
        """live qubit leaves that may be moved out: not a borrowed qubit variable and not an
        element of a borrowed tuple (it could not be put back)."""
        res = []
        for lf in self.live_leaves():
            x = lf[0]
            if self.borrowed(x) and self.types[x] in ("Q", "T"):
                continue
            res.append(lf)
        return res

    def returnable(self):
        """consumable leaves that may leave the function: not part of a borrowed parameter"""
        return [lf for lf in self.consumable() if not self.borrowed(lf[0])]

    def dead_targets(self):
        """assignable qubit places that hold no live value"""
        res = []
        for lf, s in self.stt.items():
            if s == L:
                continue
            x, kind, _ = lf
            if kind == "" and not self.borrowed(x):
                res.append(lf)
            elif kind == "f" and self.root_defined(x):
                res.append(lf)
        return res

    def whole_live(self, x):
        return all(self.stt[lf] == L for lf in self.leaves(x))

    def whole_dead(self, x):
        return all(self.stt[lf] != L for lf in self.leaves(x))

    def set_(self, leaf, s):
        self.stt[leaf] = s

    def define_root(self, x):
        for lf in self.leaves(x):
            self.stt[lf] = L
        if self.types[x] == "SI":
            self.int_defined = True

    # --- operand: a consumable place (moved) or a fresh qubit
    def operand(self, avoid=()):
        c = [lf for lf in self.consumable() if lf not in avoid]
        if c and self.chance(70):
            lf = self.pick(c)
            self.set_(lf, M)
            return self.place(lf), lf
        return ["new"], None

    # --- simple statements: each returns a statement or None when not applicable
    def a_alloc(self):
        d = self.dead_targets()
        if not d:
            return None
        lf = self.pick(d)
        self.set_(lf, L)
        return ["assign", self.place(lf), ["new"]]

    def a_consume(self):
        c = self.consumable()
        if not c:
            return None
        lf = self.pick(c)
        self.set_(lf, M)
        f = self.pick(["discard", "measure", "own1"])
        return ["expr", ["call", f, [self.place(lf)]]]

    def a_borrow(self):
        lv = self.live_leaves()
        if not lv:
            return None
        opts = ["one"]
        if len(lv) >= 2:
            opts += ["two", "two"]
        for x, ty in self.types.items():
            if ty != "Q" and self.whole_live(x) and (ty != "SI" or self.int_defined):
                opts.append("whole:" + x)
        o = self.pick(opts)
        if o == "one":
            return ["expr", ["call", self.pick(["h", "bor1"]), [self.place(self.pick(lv))]]]
        if o == "two":
            a = self.pick(lv)
            b = self.pick([x for x in lv if x != a])
            return ["expr", ["call", self.pick(["cx", "bor2"]), [self.place(a), self.place(b)]]]
        x = o.split(":")[1]
        f = {"S2": "bor_s2", "SI": "bor_si", "T": "bor_t"}[self.types[x]]
        return ["expr", ["call", f, [["v", x]]]]

    def a_move(self):
        c = self.consumable()
        if not c:
            return None
        src = self.pick(c)
        if self.chance(12) and src[1] in ("", "f"):
            return ["assign", self.place(src), self.place(src)]  # x = x
        d = self.dead_targets()
        if not d:
            return None
        dst = self.pick(d)
        self.set_(src, M)
        self.set_(dst, L)
        return ["assign", self.place(dst), self.place(src)]

    def a_call_ret(self):
        if self.chance(50):  # x = own_ret(y), possibly x is y
            c = self.consumable()
            if not c:
                return None
            src = self.pick(c)
            self.set_(src, M)
            d = self.dead_targets()  # contains src if it is assignable
            if not d:
                self.set_(src, L)
                return None
            dst = self.pick(d)
            self.set_(dst, L)
            return ["assign", self.place(dst), ["call", "own_ret", [self.place(src)]]]
        lv = self.live_leaves()
        d = self.dead_targets()
        if not lv or not d:
            return None
        dst = self.pick(d)
        self.set_(dst, L)
        return ["assign", self.place(dst), ["call", "bor_ret", [self.place(self.pick(lv))]]]

    def a_mix(self):
        c = self.consumable()
        lv = self.live_leaves()
        if not c:
            return None
        o = self.pick(c)
        rest = [x for x in lv if x != o]
        if not rest:
            return None
        b = self.pick(rest)
        self.set_(o, M)
        return ["expr", ["call", "mix", [self.place(b), self.place(o)]]]

    def a_pack(self):
        if not self.has_t or self.borrowed("t") or not self.whole_dead("t"):
            return None
        e1, l1 = self.operand()
        e2, _ = self.operand(avoid=(l1,) if l1 else ())
        self.define_root("t")
        return ["assign", ["v", "t"], ["tup", [e1, e2]]]

    def a_unpack(self):
        if not self.has_t or self.borrowed("t") or not self.whole_live("t"):
            return None
        for lf in self.leaves("t"):
            self.set_(lf, M)
        d = self.dead_targets()
        if len(d) < 2:
            for lf in self.leaves("t"):
                self.set_(lf, L)
            return None
        a = self.pick(d)
        b = self.pick([x for x in d if x != a])
        self.set_(a, L)
        self.set_(b, L)
        val = ["v", "t"] if self.chance(65) else ["tup", [["i", "t", 1], ["i", "t", 0]]]
        return ["assign", ["pat", [self.place(a), self.place(b)]], val]

    def a_struct(self):
        if not self.struct_ty or self.borrowed("s") or not self.whole_dead("s"):
            return None
        if self.struct_ty == "S2":
            e1, l1 = self.operand()
            e2, _ = self.operand(avoid=(l1,) if l1 else ())
            val = ["struct", "S2", [e1, e2]]
        else:
            e1, _ = self.operand()
            val = ["struct", "SI", [e1, ["int", self.integer(0, 9)]]]
        self.define_root("s")
        return ["assign", ["v", "s"], val]

    def a_whole_consume(self):
        opts = [x for x, ty in self.types.items()
                if ty != "Q" and not self.borrowed(x) and self.whole_live(x) and (ty != "SI" or self.int_defined)]
        if not opts:
            return None
        x = self.pick(opts)
        for lf in self.leaves(x):
            self.set_(lf, M)
        return ["expr", ["call", {"S2": "own_s2", "SI": "own_si", "T": "own_t"}[self.types[x]], [["v", x]]]]

    def a_swap(self):
        c = [lf for lf in self.consumable() if lf[1] in ("", "f")]
        if len(c) < 2:
            return None
        a = self.pick(c)
        b = self.pick([x for x in c if x != a])
        return ["assign", ["pat", [self.place(a), self.place(b)]], ["tup", [self.place(b), self.place(a)]]]

    def a_readint(self):
        if self.struct_ty != "SI" or not self.int_defined or not self.root_defined("s"):
            return None
        self.uses_int = True
        return ["assign", ["v", "i0"], ["f", "s", "n"]]

    SIMPLE = [("a_alloc", 16), ("a_consume", 16), ("a_borrow", 14), ("a_move", 12), ("a_call_ret", 8),
              ("a_mix", 4), ("a_pack", 7), ("a_unpack", 7), ("a_struct", 9), ("a_whole_consume", 5),
              ("a_swap", 4), ("a_readint", 3)]

    def simple(self):
        for _ in range(4):
            name = self.weighted(self.SIMPLE)
            s = getattr(self, name)()
            if s is not None:
                return s
        return ["pass"]

    # --- bringing the state to a target liveness (join points, loop back edges, exits)
    def fix_to(self, target, out):
        """Append statements to `out` so that afterwards leaf is live iff target[leaf]."""
        # 1. aggregates that need a live leaf which cannot be assigned on its own
        for x, ty in self.types.items():
            if ty == "Q" or self.borrowed(x) and ty == "T":
                continue
            lvs = self.leaves(x)
            need = [lf for lf in lvs if target[lf] and self.stt[lf] != L]
            if not need:
                continue
            if ty == "T" or not self.root_defined(x):
                if self.borrowed(x):
                    raise AssertionError("borrowed aggregate lost its definition")
                ops = [self.place(lf) if self.stt[lf] == L else ["new"] for lf in lvs]
                val = ["tup", ops] if ty == "T" else ["struct", ty, ops + ([["int", 0]] if ty == "SI" else [])]
                out.append(["assign", ["v", x], val])
                self.define_root(x)
        # 2. leaf by leaf
        for lf in list(self.stt):
            want, have = target[lf], self.stt[lf] == L
            if want and not have:
                out.append(["assign", self.place(lf), ["new"]])
                self.set_(lf, L)
            elif have and not want:
                x = lf[0]
                if self.types[x] != "Q" and not self.borrowed(x) and self.whole_live(x) \
                        and not any(target[l2] for l2 in self.leaves(x)) \
                        and (self.types[x] != "SI" or self.int_defined) and self.chance(40):
                    f = {"S2": "own_s2", "SI": "own_si", "T": "own_t"}[self.types[x]]
                    out.append(["expr", ["call", f, [["v", x]]]])
                    for l2 in self.leaves(x):
                        self.set_(l2, M)
                else:
                    out.append(["expr", ["call", self.pick(["discard", "measure", "own1"]), [self.place(lf)]]])
                    self.set_(lf, M)

    def exit_target(self, keep=()):
        return {lf: (self.borrowed(lf[0]) or lf in keep) for lf in self.stt}

    def emit_return(self, out):
        """fix-ups + `return ...` for the function's result type"""
        ret = self.ret
        if ret is None:
            self.fix_to(self.exit_target(), out)
            out.append(["return", None])
            return
        if ret == "Q":
            c = self.returnable()
            if c and self.chance(75):
                lf = self.pick(c)
                self.fix_to(self.exit_target(keep=(lf,)), out)
                e = self.place(lf)
                if self.chance(15):
                    e = ["call", "own_ret", [e]]
            else:
                self.fix_to(self.exit_target(), out)
                lv = self.live_leaves()
                e = ["call", "bor_ret", [self.place(self.pick(lv))]] if lv and self.chance(30) else ["new"]
            out.append(["return", e])
            return
        if ret == "T":
            if self.has_t and not self.borrowed("t") and self.whole_live("t") and self.chance(60):
                self.fix_to(self.exit_target(keep=tuple(self.leaves("t"))), out)
                out.append(["return", ["v", "t"]])
                return
            c = self.returnable()
            keep = []
            for _ in range(2):
                rest = [x for x in c if x not in keep]
                if rest and self.chance(75):
                    keep.append(self.pick(rest))
            self.fix_to(self.exit_target(keep=tuple(keep)), out)
            ops = [self.place(lf) for lf in keep] + [["new"]] * (2 - len(keep))
            if len(keep) == 2 and self.chance(50):
                ops.reverse()
            out.append(["return", ["tup", ops]])
            return
        # struct result
        x = "s"
        if not self.borrowed(x) and self.whole_live(x) and (ret != "SI" or self.int_defined) and self.chance(65):
            self.fix_to(self.exit_target(keep=tuple(self.leaves(x))), out)
            out.append(["return", ["v", x]])
            return
        c = self.returnable()
        keep = []
        for _ in range(len(FIELDS[ret])):
            rest = [y for y in c if y not in keep]
            if rest and self.chance(70):
                keep.append(self.pick(rest))
        self.fix_to(self.exit_target(keep=tuple(keep)), out)
        ops = [self.place(lf) for lf in keep] + [["new"]] * (len(FIELDS[ret]) - len(keep))
        if ret == "SI":
            ops.append(["int", self.integer(0, 9)])
        out.append(["return", ["struct", ret, ops]])

    # --- blocks
    def snapshot(self):
        return dict(self.stt), getattr(self, "int_defined", False)

    def restore(self, snap):
        self.stt = dict(snap[0])
        self.int_defined = snap[1]

    def block(self, depth, loop_head, n):
        """-> (statements, falls_through).  loop_head = liveness target of the innermost loop
        head (None outside loops)."""
        out = []
        for _ in range(n):
            if self.budget <= 0:
                break
            self.budget -= 1
            kind = "simple"
            if depth < self.max_depth:
                kind = self.weighted([("simple", 62), ("if", 24), ("while", 14)])
            if kind == "simple":
                out.append(self.simple())
            elif kind == "if":
                s, falls = self.if_stmt(depth, loop_head)
                out.append(s)
                if not falls:
                    return out, False
            else:
                out.append(self.while_stmt(depth))
        # jump at the end of a nested block
        if depth > 0 and self.chance(22):
            opts = [("return", 3)]
            if loop_head is not None:
                opts += [("break", 4), ("continue", 4)]
            j = self.weighted(opts)
            if j == "return":
                self.emit_return(out)
            else:
                self.fix_to(loop_head, out)
                out.append([j])
            return out, False
        return out, True

    def cond(self):
        c = self.pick(CONDS)
        r = self.integer(0, 9)
        if r == 0:
            return f"not {c}"
        if r == 1:
            return f"{c} and {self.pick(CONDS)}"
        if r == 2:
            return f"{c} or {self.pick(CONDS)}"
        return c

    def if_stmt(self, depth, loop_head):
        c = self.cond()
        snap = self.snapshot()
        then, f1 = self.block(depth + 1, loop_head, self.integer(1, 3))
        s1 = self.snapshot()
        self.restore(snap)
        if self.chance(70):
            els, f2 = self.block(depth + 1, loop_head, self.integer(1, 3))
        else:
            els, f2 = [], True
        s2 = self.snapshot()
        if f1 and f2:
            tgt = {}
            for lf in snap[0]:
                a, b = s1[0][lf] == L, s2[0][lf] == L
                if a == b:
                    tgt[lf] = a
                else:
                    x = lf[0]
                    can_consume = not (self.borrowed(x) and self.types[x] in ("Q", "T"))
                    tgt[lf] = (not can_consume) or self.chance(45)
            self.restore(s1)
            self.fix_to(tgt, then)
            r1 = self.snapshot()
            self.restore(s2)
            self.fix_to(tgt, els)
            r2 = self.snapshot()
            # meet of definedness: live iff live in both (equal now); else U if either is U
            merged = {}
            for lf in r1[0]:
                a, b = r1[0][lf], r2[0][lf]
                merged[lf] = a if a == b else (U if U in (a, b) else M)
            self.stt = merged
            self.int_defined = r1[1] and r2[1]
            return ["if", c, then, els], True
        if f1:
            self.restore(s1)
            return ["if", c, then, els], True
        if f2:
            self.restore(s2)
            return ["if", c, then, els], True
        return ["if", c, then, els], False

    def while_stmt(self, depth):
        c = self.cond()
        snap = self.snapshot()
        head = {lf: s == L for lf, s in snap[0].items()}
        body, falls = self.block(depth + 1, head, self.integer(1, 4))
        if falls:
            self.fix_to(head, body)
        # after the loop: the head state (what the body defined is only maybe-defined)
        self.restore(snap)
        return ["while", c, body]

    def function(self):
        self.signature()
        self.uses_int = False
        body, falls = self.block(0, None, self.integer(2, 8))
        if falls:
            if self.ret is None and self.chance(70):
                self.fix_to(self.exit_target(), body)
            else:
                self.emit_return(body)
        locals_ = dict(self.locals)
        if self.uses_int:
            locals_["i0"] = "I"
        return {"params": self.params, "locals": locals_, "ret": self.ret, "body": body}


@st.composite
def valid_functions(draw, max_depth=3, size=14):
    """fn IR of a program that satisfies the path condition by construction."""
    return bounded_function(draw(RND), max_depth, size, limit=MAX_STMTS)


MAX_STMTS = 25


def bounded_function(rnd, max_depth=3, size=14, limit=22):
    """valid function with at most `limit` statements (the generator is re-run with a smaller budget
    when the fix-up statements push a draw over the bound)."""
    while True:
        fn = Gen(rnd, max_depth=max_depth, size=size).function()
        truncate_dead(fn["body"])
        if count_stmts(fn["body"]) <= limit:
            return fn
        size = max(2, size - 3)


# ------------------------------------------------------------------------------- edits
EDIT_KINDS = [("delete", 18), ("dup", 14), ("move", 14), ("swap", 10), ("wrap", 10), ("unwrap", 6),
              ("consume_borrowed", 12), ("reassign", 10), ("arg_dup", 6), ("jump", 5), ("return_borrowed_part", 6)]


def _simple_positions(fn, kinds=("assign", "expr")):
    res = []
    for b, ld, nd in all_blocks(fn):
        for i, s in enumerate(b):
            if s[0] in kinds:
                res.append((b, i, ld, nd))
    return res


def _insert_positions(fn):
    """(block, index, loop_depth) insertion points; never after the final statement of the top
    block when it is the pinned return."""
    res = []
    for b, ld, nd in all_blocks(fn):
        hi = len(b)
        if b is fn["body"] and b and b[-1][0] == "return":
            hi -= 1
        for i in range(hi + 1):
            res.append((b, i, ld))
    return res


def _q_places(fn):
    """assignable / consumable qubit places of the signature: [(place, root, borrowed)]"""
    res = []
    roots = [(n, ty, m) for n, ty, m in fn["params"] if ty not in ("B", "I")] + \
            [(n, ty, "local") for n, ty in fn["locals"].items() if ty not in ("B", "I")]
    for n, ty, m in roots:
        if ty == "Q":
            res.append((["v", n], n, m == "borrowed", ty))
        elif ty == "T":
            res.append((["i", n, 0], n, m == "borrowed", ty))
            res.append((["i", n, 1], n, m == "borrowed", ty))
        else:
            for f in FIELDS[ty]:
                res.append((["f", n, f], n, m == "borrowed", ty))
    return res


def apply_edit(rnd, fn):
    """One edit (in place).  Returns a short description or None if not applicable."""
    def pick(xs):
        return xs[rnd.randrange(len(xs))]

    def coin():
        return rnd.randrange(2) == 0

    tot = sum(w for _, w in EDIT_KINDS)
    r = rnd.randrange(tot)
    for kind, w in EDIT_KINDS:
        if r < w:
            break
        r -= w
    top = fn["body"]
    pinned = top[-1] if top and top[-1][0] == "return" else None

    if kind == "delete":
        pos = [p for p in _simple_positions(fn, ("assign", "expr", "break", "continue", "return"))
               if p[0][p[1]] is not pinned]
        if not pos:
            return None
        b, i, _, _ = pick(pos)
        s = b.pop(i)
        return "delete:" + s[0]
    if kind == "dup":
        pos = _simple_positions(fn)
        if not pos:
            return None
        b, i, _, _ = pick(pos)
        hi = len(b) - (1 if b is top and pinned is not None else 0)
        j = rnd.randint(i + 1, max(i + 1, hi))
        b.insert(min(j, hi), copy.deepcopy(b[i]))
        return "dup"
    if kind == "move":
        pos = [p for p in _simple_positions(fn, ("assign", "expr", "break", "continue", "return"))
               if p[0][p[1]] is not pinned]
        if not pos:
            return None
        b, i, ld, nd = pick(pos)
        s = b.pop(i)
        ins = [p for p in _insert_positions(fn) if s[0] not in ("break", "continue") or p[2] > 0]
        ins2 = [p for p in ins if p[0] is not b] or ins
        if not ins2:
            b.insert(i, s)
            return None
        b2, j, ld2 = pick(ins2)
        b2.insert(j, s)
        where = "same" if b2 is b else ("loop" if ld2 > ld else ("out" if ld2 < ld else "branch"))
        return f"move:{s[0]}:{where}"
    if kind == "swap":
        cands = []
        for b, ld, nd in all_blocks(fn):
            n = len(b) - (1 if b is top and pinned is not None else 0)
            if n >= 2:
                cands.append((b, n))
        if not cands:
            return None
        b, n = pick(cands)
        i = rnd.randint(0, n - 2)
        j = rnd.randint(i + 1, min(n - 1, i + 2))
        b[i], b[j] = b[j], b[i]
        return "swap"
    if kind == "wrap":
        pos = [p for p in _simple_positions(fn) if p[3] < 3]
        if not pos:
            return None
        b, i, _, _ = pick(pos)
        c = pick(CONDS)
        loop = rnd.randrange(3) == 0
        if loop:
            b[i] = ["while", c, [b[i]]]
        elif coin():
            b[i] = ["if", c, [b[i]], []]
        else:
            b[i] = ["if", c, [["pass"]], [b[i]]]
        return "wrap:" + ("while" if loop else "if")
    if kind == "unwrap":
        pos = _simple_positions(fn, ("if", "while"))
        if not pos:
            return None
        b, i, _, _ = pick(pos)
        s = b[i]
        inner = s[2] if s[0] == "while" or coin() or not s[3] else s[3]
        b[i:i + 1] = copy.deepcopy(inner)
        return "unwrap:" + s[0]
    if kind == "consume_borrowed":
        bor = [(n, ty) for n, ty, m in fn["params"] if m == "borrowed"]
        ins = _insert_positions(fn)
        if not bor or not ins:
            return None
        n, ty = pick(bor)
        how = rnd.randrange(3)
        if ty == "Q":
            s = [["expr", ["call", "discard", [["v", n]]]], ["expr", ["call", "measure", [["v", n]]]],
                 ["assign", ["v", n], ["new"]]][how]
        elif ty == "T":
            s = [["expr", ["call", "own_t", [["v", n]]]], ["expr", ["call", "discard", [["i", n, 0]]]],
                 ["assign", ["v", n], ["tup", [["new"], ["new"]]]]][how]
        else:
            f = FIELDS[ty][0]
            s = [["expr", ["call", "own_s2" if ty == "S2" else "own_si", [["v", n]]]],
                 ["expr", ["call", "discard", [["f", n, f]]]],
                 ["assign", ["f", n, f], ["new"]]][how]
        b, j, _ = pick(ins)
        b.insert(j, s)
        return "consume_borrowed"
    if kind == "return_borrowed_part":
        # `return s.q` / `return t[1]` for a borrowed struct / tuple parameter: the part is moved out
        # and never handed back.  What the return used to carry is consumed first, so that this is
        # the only thing wrong with the function.
        if fn["ret"] != "Q":
            return None
        parts = [pl for pl, root, bor, ty in _q_places(fn) if bor and ty != "Q"]
        rets = [(b, i) for b, i, _, _ in _simple_positions(fn, ("return",)) if b[i][1] is not None]
        if not parts or not rets:
            return None
        b, i = pick(rets)
        old = b[i][1]
        b[i] = ["return", copy.deepcopy(pick(parts))]
        if old[0] in ("v", "f", "i", "new", "call"):
            b.insert(i, ["expr", ["call", "discard", [old]]])
        return "return_borrowed_part"
    if kind == "reassign":
        ps = [p for p in _q_places(fn) if p[0][0] != "i"]
        ins = _insert_positions(fn)
        if not ps or not ins:
            return None
        p = pick(ps)
        b, j, _ = pick(ins)
        b.insert(j, ["assign", p[0], ["new"]])
        return "reassign"
    if kind == "arg_dup":
        cands = []

        def find(e):
            if e is None:
                return
            if e[0] in ("tup",) and len(e[1]) == 2:
                cands.append(e[1])
            if e[0] == "struct" and e[1] == "S2":
                cands.append(e[2])
            if e[0] == "call":
                if len(e[2]) == 2:
                    cands.append(e[2])
                for a in e[2]:
                    find(a)
        for b, i, _, _ in _simple_positions(fn, ("assign", "expr", "return")):
            s = b[i]
            find(s[2] if s[0] == "assign" else s[1])
        cands = [c for c in cands if c[0][0] in ("v", "f", "i") or c[1][0] in ("v", "f", "i")]
        if not cands:
            return None
        c = pick(cands)
        if c[0][0] in ("v", "f", "i") and (c[1][0] not in ("v", "f", "i") or coin()):
            c[1] = copy.deepcopy(c[0])
        else:
            c[0] = copy.deepcopy(c[1])
        return "arg_dup"
    if kind == "jump":
        ins = [p for p in _insert_positions(fn) if p[0] is not top]
        if not ins:
            return None
        b, j, ld = pick(ins)
        opts = ["break", "continue"] if ld > 0 else []
        if fn["ret"] is None:
            opts.append("return")
        if not opts:
            return None
        o = pick(opts)
        b.insert(j, [o] if o != "return" else ["return", None])
        return "jump:" + o
    return None


@st.composite
def edited_functions(draw, max_depth=3, size=14, edit_weights=((0, 38), (1, 34), (2, 18), (3, 10))):
    """{"fn": edited IR, "base": valid IR, "edits": [descriptions]}; dead code is truncated."""
    rnd = draw(RND)
    base = bounded_function(rnd, max_depth, size)
    n = 0
    r = rnd.randrange(sum(w for _, w in edit_weights))
    for k, w in edit_weights:
        if r < w:
            n = k
            break
        r -= w
    fn = copy.deepcopy(base)
    edits = []
    for _ in range(n):
        for _attempt in range(4):
            trial = copy.deepcopy(fn)
            d = apply_edit(rnd, trial)
            if d is None:
                continue
            truncate_dead(trial["body"])
            if not jumps_ok(trial) or max_depth_of(trial) > 3 or render(trial) == render(fn) \
                    or count_stmts(trial["body"]) > MAX_STMTS:
                continue
            fn = trial
            edits.append(d)
            break
    if render(fn) == render(base):
        edits = []
    d = add_retype(rnd, fn)
    if d:
        edits.append(d)
    return {"fn": fn, "base": base, "edits": edits}


def _mentions(e, x):
    if isinstance(e, list):
        if len(e) >= 2 and e[0] in ("v", "f", "i") and e[1] == x:
            return True
        return any(_mentions(y, x) for y in e)
    return False


def add_retype(rnd, fn):
    """With probability 1/3: at the end of the top-level body (before a trailing `return` that does
    not mention it) one variable holding qubits is re-bound to an int, `x = 0` - the last thing that
    happens to the name.  Legal exactly when the name holds no live qubit there; it also changes the
    type the name has at the end of the last basic block, which no linearity verdict may depend on."""
    if rnd.randrange(3):
        return None
    cands = [n for n, ty, mode in fn["params"] if mode != "borrowed" and ty in ("Q", "T", "S2", "SI")]
    cands += [n for n, ty in fn["locals"].items() if ty in ("Q", "T", "S2", "SI")]
    body = fn["body"]
    if not cands or not body:
        return None
    x = cands[rnd.randrange(len(cands))]
    last = body[-1]
    if last[0] == "return":
        if _mentions(last, x):
            return None
        body.insert(len(body) - 1, ["retype", x, rnd.randrange(2) == 0])
    elif falls_through(last):
        body.append(["retype", x, rnd.randrange(2) == 0])
    else:
        return None
    return f"retype {x}"


def max_depth_of(fn):
    return max_depth(fn["body"])


@st.composite
def valid_programs(draw, name="f", max_depth=3, size=14):
    """For other checks (C01): a self-contained module text (prepend runner.PRELUDE) whose function
    `name` satisfies the linearity rules by construction.
    -> {"src": str, "entry": name, "fn": IR}.  The callees are @guppy.declare'd, so the package can be
    compiled (`compile_function`) and validated but not executed."""
    fn = bounded_function(draw(RND), max_depth, size, limit=MAX_STMTS)
    return {"src": full_source(fn, name), "entry": name, "fn": fn}
