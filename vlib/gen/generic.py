"""GenGeneric — generic programs and their textually specialised copies (C13, reusable by C01).

One intermediate representation, two renderings:

* the *generic* program: function templates whose chosen slots (a copyable type `T`/`U`, an
  array length `n`, comptime constants `k: int`, `m: nat`, `b: bool`, `f: float`, `x: T`) are
  abstracted into generic parameters (legacy `guppy.type_var`/`nat_var` style, PEP 695 style or
  a mix; drawn argument order and drawn declaration order), generic structs `Box[T]`,
  `Pair[A, B]`, `Vec[T, n]`, generic functions calling generic functions with some of their own
  parameters and some concrete ones, and a non-generic `main()` with 2-6 call sites;
* the *specialised* program: for every (function, full slot assignment) reachable from `main`
  one monomorphic copy `f__i` of the same body with the arguments substituted textually
  (types, lengths and constants as literals, comptime arguments removed from signature and
  calls, `Box[int]` replaced by a plain struct `Box__int`), and the same `main()` calling the
  copies.  The specialised program contains no generics at all, so CPython (pyref) can run it.

Entry points:  `generic_programs()`  (Hypothesis strategy)  ->  dict with keys
  "generic", "spec"   source text *without* the import prelude (prepend `PRELUDE`)
  "labels"            feature labels,  "nontrivial" (bool),  "n_sites", "funcs" (summary)
`build_program(ir)` rebuilds the same dict from the JSON-able "ir" entry (strategy `generic_irs()`).

Executed programs avoid what selene 0.4.3 cannot run (DESIGN 1.4): classical `xs[i]`, `.copy()`
or an implicit drop of an array inside a function that is still generic over the element type
or the length.
"""
from __future__ import annotations

from hypothesis import strategies as st

PRELUDE = """from guppylang import guppy
from guppylang.std.builtins import *
from guppylang.std.builtins import result, array, owned, comptime, nat, panic, exit
from guppylang.std.lang import Copy, Drop
from typing import Generic
from collections.abc import Callable
"""

# ------------------------------------------------------------------------------ type expressions
INT, FLOAT, BOOL, NAT = ("b", "int"), ("b", "float"), ("b", "bool"), ("b", "nat")


def S(name):
    return ("s", name)


def subst_ty(t, env):
    """replace slots that have a concrete value in env (type expr / int)"""
    k = t[0]
    if k == "s":
        return env.get(t[1], t)
    if k == "b":
        return t
    if k == "tuple":
        return ("tuple", tuple(subst_ty(x, env) for x in t[1]))
    if k == "array":
        n = t[2]
        if isinstance(n, tuple) and n[0] == "s":
            n = env.get(n[1], n)
        return ("array", subst_ty(t[1], env), n)
    if k == "struct":
        return ("struct", t[1], tuple(subst_ty(a, env) if isinstance(a, tuple) else a for a in t[2]))
    if k == "fn":
        return ("fn", tuple(subst_ty(x, env) for x in t[1]), subst_ty(t[2], env))
    raise ValueError(t)


def is_concrete(t):
    if isinstance(t, int):
        return True
    k = t[0]
    if k == "s":
        return False
    if k == "b":
        return True
    if k == "tuple":
        return all(is_concrete(x) for x in t[1])
    if k == "array":
        return is_concrete(t[1]) and is_concrete(t[2])
    if k == "struct":
        return all(is_concrete(a) for a in t[2])
    if k == "fn":
        return all(is_concrete(x) for x in t[1]) and is_concrete(t[2])
    raise ValueError(t)


def slots_in(t, out=None):
    """slot names in order of first appearance (left to right)"""
    out = [] if out is None else out
    if isinstance(t, int):
        return out
    k = t[0]
    if k == "s":
        if t[1] not in out:
            out.append(t[1])
    elif k == "tuple":
        for x in t[1]:
            slots_in(x, out)
    elif k == "array":
        slots_in(t[1], out)
        slots_in(t[2], out)
    elif k == "struct":
        for a in t[2]:
            slots_in(a, out)
    elif k == "fn":
        for x in t[1]:
            slots_in(x, out)
        slots_in(t[2], out)
    return out


def mangle(t):
    if isinstance(t, int):
        return str(t)
    k = t[0]
    if k == "b":
        return t[1]
    if k == "tuple":
        return "t" + "_".join(mangle(x) for x in t[1]) + "e"
    if k == "array":
        return f"a{mangle(t[1])}x{mangle(t[2])}"
    if k == "struct":
        return t[1] + "__" + "__".join(mangle(a) for a in t[2])
    raise ValueError(t)


# ------------------------------------------------------------------------------ structs
STRUCTS = {
    # name: (params [(name, kind)], fields [(name, type expr over params)])
    "Box": ([("T", "type")], [("v", S("T")), ("c", INT)]),
    "Pair": ([("A", "type"), ("B", "type")], [("a", S("A")), ("b", S("B"))]),
    "Vec": ([("T", "type"), ("n", "size")], [("xs", ("array", S("T"), S("n"))), ("tag", S("T"))]),
}


def struct_env(t):
    params, _ = STRUCTS[t[1]]
    return {p: a for (p, _), a in zip(params, t[2])}


def struct_fields(t):
    """fields of a concrete struct type"""
    env = struct_env(t)
    return [(f, subst_ty(ft, env)) for f, ft in STRUCTS[t[1]][1]]


def nested_structs(t):
    """struct types occurring in concrete type t (outermost first is fine: callers recurse)"""
    k = t[0]
    if k == "struct":
        return [t]
    if k == "tuple":
        return [d for x in t[1] for d in nested_structs(x)]
    if k == "array":
        return nested_structs(t[1])
    if k == "fn":
        return [d for x in t[1] for d in nested_structs(x)] + nested_structs(t[2])
    return []


def copyable(t):
    k = t[0]
    if k == "array":
        return False
    if k == "tuple":
        return all(copyable(x) for x in t[1])
    if k == "struct":
        return all(copyable(ft) for _, ft in struct_fields(t))
    return True


# ------------------------------------------------------------------------------ renderers
class Render:
    """mode 'generic': env maps slot -> ('param', name) or ('val', value);
    mode 'spec': env maps every slot -> ('val', value); struct instantiations are collected."""

    def __init__(self, mode, env, prog, fn=None):
        self.mode, self.env, self.prog, self.fn = mode, env, prog, fn

    # types
    def T(self, t):
        if isinstance(t, int):
            return str(t)
        k = t[0]
        if k == "s":
            e = self.env[t[1]]
            return e[1] if e[0] == "param" else self.T(e[1])
        if k == "b":
            return t[1]
        if k == "tuple":
            return "tuple[" + (", ".join(self.T(x) for x in t[1]) or "()") + "]"
        if k == "array":
            return f"array[{self.T(t[1])}, {self.T(t[2])}]"
        if k == "fn":
            return "Callable[[" + ", ".join(self.T(x) for x in t[1]) + "], " + self.T(t[2]) + "]"
        if k == "struct":
            if self.mode == "spec":
                c = self.concrete(t)
                self.prog.need_struct(c)
                return mangle(c)
            return t[1] + "[" + ", ".join(self.T(a) for a in t[2]) + "]"
        raise ValueError(t)

    def concrete(self, t):
        env = {s: e[1] for s, e in self.env.items() if e[0] == "val"}
        c = subst_ty(t, env)
        assert is_concrete(c), (t, self.env)
        return c

    # constants / lengths as value expressions
    def v(self, slot):
        e = self.env[slot]
        if e[0] == "param":
            return e[1]
        return lit(e[1], paren=True)

    def arg(self, slot):
        e = self.env[slot]
        return e[1] if e[0] == "param" else lit(e[1])

    def new(self, t, args):
        """constructor call of struct type t"""
        if self.mode == "spec":
            c = self.concrete(t)
            self.prog.need_struct(c)
            return f"{mangle(c)}({args})"
        return f"{t[1]}({args})"

    def call(self, key, args):
        """call of the callee registered under `key` in the current function instance;
        args: {callee runtime arg name: expression text}"""
        return self.prog.render_call(self, self.fn, key, args)

    def helper(self, name):
        return name


def lit(v, paren=False):
    if isinstance(v, bool):
        return "True" if v else "False"
    if isinstance(v, (int, float)):
        s = repr(v)
        return f"({s})" if paren and v < 0 else s
    raise ValueError(v)


# ------------------------------------------------------------------------------ values
def render_value(val, R):
    k = val[0]
    if k == "lit":
        return val[1]
    if k == "tuple":
        return "(" + ", ".join(render_value(x, R) for x in val[1]) + ("," if len(val[1]) == 1 else "") + ")"
    if k == "array":
        return "array(" + ", ".join(render_value(x, R) for x in val[1]) + ")"
    if k == "new":
        return R.new(val[1], ", ".join(render_value(x, R) for x in val[2]))
    if k == "name":
        return val[1]
    raise ValueError(val)


BASE_POOL = {
    "int": ["7", "-3", "0", "12", "41"],
    "float": ["1.5", "-0.25", "4.0", "0.5"],
    "bool": ["True", "False"],
}

# helper functions available as Callable arguments: type -> (name, source)
HELPERS = {
    INT: ("h_inc", "@guppy\ndef h_inc(x: int) -> int:\n    return x * 2 + 1\n"),
    BOOL: ("h_not", "@guppy\ndef h_not(x: bool) -> bool:\n    return not x\n"),
    FLOAT: ("h_half", "@guppy\ndef h_half(x: float) -> float:\n    return x * 0.5 + 1.0\n"),
}


@st.composite
def value_of(draw, t):
    """a value expression of concrete type t"""
    k = t[0]
    if k == "b":
        if t[1] == "nat":
            return ("lit", f"nat({draw(st.integers(0, 5))})")
        return ("lit", draw(st.sampled_from(BASE_POOL[t[1]])))
    if k == "tuple":
        return ("tuple", [draw(value_of(x)) for x in t[1]])
    if k == "array":
        return ("array", [draw(value_of(t[1])) for _ in range(t[2])])
    if k == "struct":
        return ("new", t, [draw(value_of(ft)) for _, ft in struct_fields(t)])
    if k == "fn":
        assert len(t[1]) == 1 and t[1][0] == t[2] and t[2] in HELPERS, t
        return ("name", HELPERS[t[2]][0])
    raise ValueError(t)


def leaves(expr, t):
    """[(expression text, reportable)] scalar leaves / base arrays of a concrete value"""
    k = t[0]
    if k == "b":
        return [f"int({expr})" if t[1] == "nat" else expr]
    if k == "tuple":
        out = []
        for i, x in enumerate(t[1]):
            out += leaves(f"{expr}[{i}]", x)
        return out
    if k == "struct":
        out = []
        for f, ft in struct_fields(t):
            if not copyable(ft):
                continue  # non-copyable fields are not projected out of a value in main
            out += leaves(f"{expr}.{f}", ft)
        return out
    if k == "array":
        if t[1][0] == "b" and t[1][1] != "nat":
            return [expr]
        return []
    return []


# ------------------------------------------------------------------------------ templates
class Tmpl:
    """A function template.  slots: [(name, kind)], kind in type|size|nat|int|bool|float|dep:<T>
    args: [(name, type expr, owned)] runtime args and [(slot, 'comptime')] markers
    body(R, inst) -> list of lines;  calls: {key: (callee template, [alternatives])} where an
    alternative maps callee slot -> 'own:<slot>' | 'val'."""

    def __init__(self, name, slots, args, ret, body, calls=None, type_pool=None, force_abstract=(),
                 requires=None, exec_ok=True, vars_=None, first_arg=None):
        self.name, self.slots, self.args, self.ret, self.body = name, slots, args, ret, body
        self.calls = calls or {}
        self.type_pool = type_pool or {}
        self.force_abstract = set(force_abstract)
        self.requires = requires  # fn(abstract set) -> bool
        self.exec_ok = exec_ok
        self.vars = vars_ or {}
        self.first_arg = first_arg  # runtime argument that must stay in front (it fixes a type parameter)

    def slot_kind(self, s):
        return dict(self.slots)[s]


TYPE_POOL = [INT, FLOAT, BOOL, ("tuple", (INT, BOOL)), ("struct", "Box", (FLOAT,)), ("struct", "Pair", (INT, BOOL)),
             ("tuple", (FLOAT,))]
NUM_POOL = [INT, FLOAT, BOOL]


def _own_or(inst, key, slot, yes, no):
    """`yes` if the call `key` passes the caller's own type slot for the callee's `slot`
    (then the callee's result has the caller's type), else `no`"""
    return yes if inst["bind"][key][slot][0] == "own" else no


def _pick_body(R, inst):
    return [
        "c = len(xs)",
        f"if {R.v('b')}:",
        f"    return x, c * 100 + {R.v('k')} + int({R.v('n')})",
        f"return x, c * 100 - {R.v('k')} * 2",
    ]


def _rot_body(R, inst):
    return [
        "s = 0",
        f"for i in range({R.v('m')}):",
        "    s += i + 1",
        f"return ys, xs, s * 10 + int({R.v('n')})",
    ]


def _wrap_body(R, inst):
    return [f"return {R.new(('struct', 'Pair', (S('U'), S('T'))), 'y, x')}"]


def _unbox_body(R, inst):
    return [f"return bx.v, bx.c + {R.v('k')}"]


def _dep_body(R, inst):
    return [f"return {R.v('x')}, y"]


def _depfwd_body(R, inst):
    # a dependent constant forwarded, together with its type, to another generic function
    a1 = R.call("c1", {"y": "y"})
    return [
        f"p, q = {a1}",
        f"return p, {R.v('x')}, q",
    ]


def _second_body(R, inst):
    # the whole result type is a type parameter (instantiated with 0-, 1- and 2-tuples, structs, scalars)
    return ["return y"]


CNT_SRC = "@guppy.struct\nclass Cnt:\n    c: int\n    d: int\n"


def _ctorv_body(R, inst):
    # a (non-generic) struct constructor used as a first-class value inside a partially monomorphized
    # function, the generic parameters being used afterwards
    return [
        "mk = Cnt",
        f"w = mk({R.v('k')}, len(xs))",
        f"if {R.v('b')}:",
        f"    return x, w.c * 100 + w.d + int({R.v('n')})",
        f"return xs[0], w.c - w.d" if False else f"return x, w.c - w.d - int({R.v('n')})",
    ]


def _vsum_body(R, inst):
    return [
        f"s = {R.v('k')}",
        "for e in v.xs:",
        "    s += e",
        f"return s * 10 + int({R.v('n')})",
    ]


def _app_body(R, inst):
    return [
        f"for _i in range({R.v('m')}):",
        "    x = f(x)",
        "return x",
    ]


def _fsc_body(R, inst):
    return [
        f"if {R.v('b')}:",
        f"    return {R.v('f')} * y + float({R.v('k')}), {R.v('k')}",
        f"return y - {R.v('f')}, -{R.v('k')} + {R.v('j')} * 7",
    ]


def _sel_body(R, inst):
    # two comptime constants of the same type used asymmetrically + a length between them
    return [
        f"return x, {R.v('k')} * 100 + {R.v('j')} * 10 + len(xs)",
    ]


def _idx_body(R, inst):
    # classical indexing under a generic length: validated only (toolchain gap when executed)
    return [
        f"return xs[0], {R.v('k')} + int({R.v('n')})",
    ]


def _outer1_body(R, inst):
    a1 = R.call("c1", {"x": None, "xs": None})
    a2 = R.call("c2", {"x": None, "xs": None})
    return [
        f"u, v = {a1}",
        f"w, z = {a2}",
        f"return {_own_or(inst, 'c1', 'T', 'u', 'x')}, v * 1000 + z",
    ]


def _outer2_body(R, inst):
    a1 = R.call("c1", {"bx": None})
    a2 = R.call("c2", {"y": None})
    return [
        f"p, q = {a1}",
        f"d, e = {a2}",
        f"return {_own_or(inst, 'c1', 'T', 'p', 'bx.v')}, q * 100 + int(d) * 10 + int(e)",
    ]


def _chain_body(R, inst):
    a1 = R.call("c1", {"x": None, "xs": None})
    return [
        f"u, v = {a1}",
        f"if {R.v('b')}:",
        f"    return {_own_or(inst, 'c1', 'T', 'u', 'x')}, v + {R.v('k')}",
        f"return {_own_or(inst, 'c1', 'T', 'u', 'x')}, -v",
    ]


def _twice_body(R, inst):
    inner = R.call("c1", {"x": "x", "y": "y"})
    outer = R.call("c2", {"x": "pp", "y": "x"})
    return [
        f"pp = {inner}",
        f"return {outer}",
    ]


def _hof_body(R, inst):
    a1 = R.call("c1", {"f": "f", "x": "x"})
    a2 = R.call("c2", {"f": None, "x": None})
    return [
        f"r = {a1}",
        f"t = {a2}",
        f"return {_own_or(inst, 'c1', 'T', 'r', 'x')}, t",
    ]


TEMPLATES = {}


def _reg(t):
    TEMPLATES[t.name] = t


_reg(Tmpl("pick", [("T", "type"), ("n", "size"), ("k", "int"), ("b", "bool")],
          [("x", S("T"), False), ("xs", ("array", S("T"), S("n")), False), ("k", "comptime"), ("b", "comptime")],
          ("tuple", (S("T"), INT)), _pick_body))
_reg(Tmpl("rot", [("T", "type"), ("n", "size"), ("m", "nat")],
          [("xs", ("array", S("T"), S("n")), True), ("ys", ("array", S("T"), S("n")), True), ("m", "comptime")],
          ("tuple", (("array", S("T"), S("n")), ("array", S("T"), S("n")), INT)), _rot_body,
          type_pool={"T": [INT, FLOAT, BOOL]}))
_reg(Tmpl("wrap", [("T", "type"), ("U", "type")],
          [("x", S("T"), False), ("y", S("U"), False)],
          ("struct", "Pair", (S("U"), S("T"))), _wrap_body))
_reg(Tmpl("unbox", [("T", "type"), ("k", "int")],
          [("bx", ("struct", "Box", (S("T"),)), False), ("k", "comptime")],
          ("tuple", (S("T"), INT)), _unbox_body))
_reg(Tmpl("dep", [("T", "type"), ("x", "dep:T")],
          [("x", "comptime"), ("y", S("T"), False)],
          ("tuple", (S("T"), S("T"))), _dep_body, type_pool={"T": NUM_POOL},
          requires=lambda ab: "x" in ab or "T" not in ab))
_reg(Tmpl("vsum", [("n", "size"), ("k", "int")],
          [("k", "comptime"), ("v", ("struct", "Vec", (INT, S("n"))), True)],
          INT, _vsum_body))
_reg(Tmpl("app", [("T", "type"), ("m", "nat")],
          [("f", ("fn", (S("T"),), S("T")), False), ("x", S("T"), False), ("m", "comptime")],
          S("T"), _app_body, type_pool={"T": NUM_POOL}))
_reg(Tmpl("fsc", [("f", "float"), ("k", "int"), ("j", "int"), ("b", "bool")],
          [("y", FLOAT, False), ("f", "comptime"), ("k", "comptime"), ("b", "comptime"), ("j", "comptime")],
          ("tuple", (FLOAT, INT)), _fsc_body))
_reg(Tmpl("sel", [("T", "type"), ("n", "size"), ("k", "int"), ("j", "int")],
          [("k", "comptime"), ("x", S("T"), False), ("xs", ("array", S("T"), S("n")), False), ("j", "comptime")],
          ("tuple", (S("T"), INT)), _sel_body))
_reg(Tmpl("idx", [("T", "type"), ("n", "size"), ("k", "int")],
          [("xs", ("array", S("T"), S("n")), False), ("k", "comptime")],
          ("tuple", (S("T"), INT)), _idx_body, exec_ok=False, type_pool={"T": NUM_POOL}))

# --- generic functions calling generic functions
_reg(Tmpl("outer1", [("T", "type"), ("n", "size"), ("k", "int")],
          [("x", S("T"), False), ("xs", ("array", S("T"), S("n")), False), ("k", "comptime")],
          ("tuple", (S("T"), INT)), _outer1_body,
          calls={"c1": ("pick", [{"T": "own:T", "n": "own:n", "k": "own:k", "b": "val"},
                                 {"T": "own:T", "n": "own:n", "k": "val", "b": "val"}]),
                 "c2": ("pick", [{"T": "val", "n": "val", "k": "own:k", "b": "val"},
                                 {"T": "own:T", "n": "val", "k": "own:k", "b": "val"},
                                 {"T": "own:T", "n": "val", "k": "val", "b": "val"}])},
          vars_={"x": S("T"), "xs": ("array", S("T"), S("n"))}))
_reg(Tmpl("outer2", [("T", "type"), ("m", "nat"), ("k", "int")],
          [("m", "comptime"), ("bx", ("struct", "Box", (S("T"),)), False), ("k", "comptime")],
          ("tuple", (S("T"), INT)), _outer2_body,
          calls={"c1": ("unbox", [{"T": "own:T", "k": "own:k"}, {"T": "own:T", "k": "val"}]),
                 "c2": ("dep", [{"T": "nat", "x": "own:m"}, {"T": "int", "x": "own:k"}, {"T": "val", "x": "val"}])},
          vars_={"bx": ("struct", "Box", (S("T"),))}))
_reg(Tmpl("chain", [("T", "type"), ("n", "size"), ("k", "int"), ("b", "bool")],
          [("b", "comptime"), ("x", S("T"), False), ("xs", ("array", S("T"), S("n")), False), ("k", "comptime")],
          ("tuple", (S("T"), INT)), _chain_body,
          calls={"c1": ("outer1", [{"T": "own:T", "n": "own:n", "k": "own:k"},
                                   {"T": "own:T", "n": "own:n", "k": "val"}])},
          vars_={"x": S("T"), "xs": ("array", S("T"), S("n"))}))
_reg(Tmpl("twice", [("T", "type"), ("U", "type")],
          [("x", S("T"), False), ("y", S("U"), False)],
          ("struct", "Pair", (S("T"), ("struct", "Pair", (S("U"), S("T"))))), _twice_body,
          calls={"c1": ("wrap", [{"T": "own:T", "U": "own:U"}]),
                 "c2": ("wrap", [{"T": ("struct", "Pair", (S("U"), S("T"))), "U": "own:T"}])}))
_reg(Tmpl("hof", [("T", "type"), ("m", "nat")],
          [("f", ("fn", (S("T"),), S("T")), False), ("m", "comptime"), ("x", S("T"), False)],
          ("tuple", (S("T"), INT)), _hof_body, type_pool={"T": NUM_POOL},
          calls={"c1": ("app", [{"T": "own:T", "m": "own:m"}, {"T": "own:T", "m": "val"}]),
                 "c2": ("app", [{"T": "int", "m": "own:m"}, {"T": "int", "m": "val"}])},
          vars_={"f": ("fn", (S("T"),), S("T")), "x": S("T")}))

_reg(Tmpl("depfwd", [("T", "type"), ("x", "dep:T")],
          [("y", S("T"), False), ("x", "comptime")],
          ("tuple", (S("T"), S("T"), S("T"))), _depfwd_body, type_pool={"T": [INT, FLOAT, BOOL, NAT, NAT]},
          requires=lambda ab: "x" in ab or "T" not in ab,
          calls={"c1": ("dep", [{"T": "own:T", "x": "own:x"}])}, vars_={"y": S("T")}, first_arg="y"))

_reg(Tmpl("second", [("U", "type"), ("T", "type")],
          [("x", S("U"), False), ("y", S("T"), False)],
          S("T"), _second_body,
          type_pool={"T": TYPE_POOL + [("tuple", ()), ("tuple", (INT,)), ("tuple", (("tuple", (BOOL,)),)), ("tuple", (FLOAT,))]}))

_reg(Tmpl("ctorv", [("T", "type"), ("n", "size"), ("k", "int"), ("b", "bool")],
          [("x", S("T"), False), ("xs", ("array", S("T"), S("n")), False), ("k", "comptime"), ("b", "comptime")],
          ("tuple", (S("T"), INT)), _ctorv_body))

ROOTS = ["ctorv", "ctorv", "second", "second", "depfwd", "depfwd", "pick", "rot", "wrap", "unbox", "dep", "vsum", "app", "fsc", "fsc", "sel", "sel", "outer1", "outer1",
         "outer2", "outer2", "chain", "chain", "twice", "hof", "hof"]
DEPS = {"depfwd": ["dep"], "outer1": ["pick"], "outer2": ["unbox", "dep"], "chain": ["outer1", "pick"], "twice": ["wrap"], "hof": ["app"]}

CONST_POOL = {
    "nat": [0, 1, 2, 3, 4],
    "int": [-9, -4, -1, 0, 2, 3, 5, 8],
    "bool": [True, False],
    "float": [1.5, -0.25, 2.0, 0.5],
}
DEP_POOL = {INT: [-4, 3, 6], FLOAT: [1.5, -0.25], BOOL: [True, False], NAT: [0, 2, 3]}
PARAM_NAMES = {}  # slot -> name is the slot name itself


# ------------------------------------------------------------------------------ program
class Program:
    """IR: {'funcs': {tname: inst}, 'order': [tname...], 'sites': [...], 'struct_style': ..}
    inst = {'abstract': [slots], 'fixed': {slot: value}, 'style': legacy|pep|mixed, 'bracket': [slots in
    declaration order], 'arg_order': [arg names], 'bind': {key: {callee slot: ['own', s] | ['val', v]}},
    'apply': bool}
    site = {'fn': tname, 'inst': {slot: value}, 'args': {argname: value expr}, 'apply': bool}
    Values: types are type exprs (JSON lists -> tuples via `tt`), sizes/consts python scalars."""

    def __init__(self, ir):
        self.ir = ir
        self.funcs = ir["funcs"]
        self.structs_needed = []
        self.spec_copies = {}  # (tname, frozen assignment) -> name
        self.spec_queue = []
        self.uses_helpers = set()

    # ---- shared
    def need_struct(self, c):
        if c in self.structs_needed:
            return
        for _, ft in struct_fields(c):
            for d in nested_structs(ft):
                self.need_struct(d)
        self.structs_needed.append(c)

    def full_assignment(self, tname, abstract_values):
        f = self.funcs[tname]
        a = dict(tt(f["fixed"]))
        a.update(abstract_values)
        return a

    def env_generic(self, tname):
        f = self.funcs[tname]
        env = {}
        for s, _ in TEMPLATES[tname].slots:
            if s in f["abstract"]:
                env[s] = ("param", s)
            else:
                env[s] = ("val", tt(f["fixed"][s]))
        return env

    def param_order(self, tname):
        """names of the generic parameters in index order (abstract slots only)"""
        f = self.funcs[tname]
        t = TEMPLATES[tname]
        order = [s for s in f["bracket"]]
        for a in self.ordered_args(tname):
            if a[1] == "comptime":
                s = a[0]
                if s not in f["abstract"]:
                    continue
                kind = t.slot_kind(s)
                if kind.startswith("dep:") and kind[4:] in f["abstract"] and kind[4:] not in order:
                    order.append(kind[4:])
                if s not in order:
                    order.append(s)
            else:
                for s in slots_in(a[1]):
                    if s in f["abstract"] and s not in order:
                        order.append(s)
        for s in slots_in(t.ret):
            if s in f["abstract"] and s not in order:
                order.append(s)
        return order

    def ordered_args(self, tname):
        t = TEMPLATES[tname]
        by = {a[0]: a for a in t.args}
        return [by[n] for n in self.funcs[tname]["arg_order"]]

    def slot_type_str(self, tname, s, R):
        kind = TEMPLATES[tname].slot_kind(s)
        if kind.startswith("dep:"):
            return R.T(S(kind[4:]))
        return kind

    # ---- binding evaluation
    def callee_assignment(self, tname, key, caller_assign):
        """full slot assignment of the callee for this call under the caller's full assignment"""
        callee, _ = TEMPLATES[tname].calls[key]
        b = self.funcs[tname]["bind"][key]
        out = {}
        for s, _k in TEMPLATES[callee].slots:
            how = b[s]
            if how[0] == "own":
                out[s] = caller_assign[how[1]]
            else:
                v = tt(how[1])
                if isinstance(v, tuple):
                    v = subst_ty(v, {k2: v2 for k2, v2 in caller_assign.items() if isinstance(v2, tuple)})
                out[s] = v
        return out

    def synth(self, ty_callee, tname, key, R, used):
        """expression of the callee argument type (in caller terms) from the caller's variables /
        literals; ty_callee is the callee's arg type with the binding applied (caller slots or concrete)"""
        t = TEMPLATES[tname]
        for var, vt in t.vars.items():
            if vt == ty_callee:
                return var
        k = ty_callee[0]
        if k == "s":
            # a value of the caller's own type slot: must come from a variable
            for var, vt in t.vars.items():
                if vt == ty_callee:
                    return var
            return None
        if k == "b":
            if ty_callee[1] == "nat":
                return "nat(2)"
            return {"int": "5", "float": "2.5", "bool": "True"}[ty_callee[1]]
        if k == "tuple":
            parts = [self.synth(x, tname, key, R, used) for x in ty_callee[1]]
            if None in parts:
                return None
            return "(" + ", ".join(parts) + ("," if len(parts) == 1 else "") + ")"
        if k == "array":
            if not isinstance(ty_callee[2], int):
                return None
            e = self.synth(ty_callee[1], tname, key, R, used)
            if e is None:
                return None
            return "array(" + ", ".join([e] * ty_callee[2]) + ")"
        if k == "struct":
            env = struct_env(ty_callee)
            parts = [self.synth(subst_ty(ft, env), tname, key, R, used) for _, ft in STRUCTS[ty_callee[1]][1]]
            if None in parts:
                return None
            return R.new(ty_callee, ", ".join(parts))
        if k == "fn":
            if ty_callee[2] in HELPERS and ty_callee[1] == (ty_callee[2],):
                self.uses_helpers.add(ty_callee[2])
                return HELPERS[ty_callee[2]][0]
            return None
        return None

    def binding_type_env(self, tname, key):
        """callee slot -> type expr / size in caller terms"""
        callee, _ = TEMPLATES[tname].calls[key]
        b = self.funcs[tname]["bind"][key]
        env = {}
        for s, kind in TEMPLATES[callee].slots:
            if kind in ("type", "size"):
                how = b[s]
                env[s] = S(how[1]) if how[0] == "own" else tt(how[1])
        return env

    def render_call(self, R, tname, key, args):
        callee, _ = TEMPLATES[tname].calls[key]
        b = self.funcs[tname]["bind"][key]
        cf = self.funcs[callee]
        benv = self.binding_type_env(tname, key)
        used = R.__dict__.setdefault("_used", set())
        if R.mode == "spec":
            caller_assign = {s: e[1] for s, e in R.env.items()}
            ca = self.callee_assignment(tname, key, caller_assign)
            name = self.spec_name(callee, ca)
        else:
            name = callee
        parts = []
        for a in self.ordered_args(callee):
            if a[1] == "comptime":
                s = a[0]
                if R.mode == "spec" or s not in cf["abstract"]:
                    continue
                how = b[s]
                parts.append(R.arg(how[1]) if how[0] == "own" else lit(tt(how[1])))
                continue
            given = args.get(a[0])
            if given is not None:
                parts.append(given)
                continue
            ty = subst_ty(a[1], benv)
            e = self.synth(ty, tname, key, R, used)
            if e is None:
                raise GenError(f"cannot synthesise {ty} for {callee}.{a[0]} in {tname}")
            parts.append(e)
        return f"{name}({', '.join(parts)})"

    # ---- generic rendering
    def render_generic_fn(self, tname):
        t = TEMPLATES[tname]
        f = self.funcs[tname]
        R = Render("generic", self.env_generic(tname), self, tname)
        br = []
        for s in f["bracket"]:
            kind = t.slot_kind(s)
            br.append(f"{s}: (Copy, Drop)" if kind == "type" else f"{s}: nat")
        sig = []
        for a in self.ordered_args(tname):
            if a[1] == "comptime":
                if a[0] in f["abstract"]:
                    sig.append(f"{a[0]}: {self.slot_type_str(tname, a[0], R)} @comptime")
                continue
            sig.append(f"{a[0]}: {R.T(a[1])}" + (" @owned" if a[2] else ""))
        head = f"@guppy\ndef {tname}" + (f"[{', '.join(br)}]" if br else "") + f"({', '.join(sig)}) -> {R.T(t.ret)}:"
        body = t.body(R, f)
        return head + "\n" + "\n".join("    " + ln for ln in body) + "\n"

    def render_generic_struct(self, sname, style):
        params, fields = STRUCTS[sname]
        R = Render("generic", {p: ("param", "S" + p if style == "legacy" else p) for p, _ in params}, self)
        if style == "legacy":
            head = f"@guppy.struct\nclass {sname}(Generic[{', '.join('S' + p for p, _ in params)}]):"
        else:
            head = f"@guppy.struct\nclass {sname}[{', '.join(p if k == 'type' else p + ': nat' for p, k in params)}]:"
        return head + "\n" + "\n".join(f"    {fn}: {R.T(ft)}" for fn, ft in fields) + "\n"

    # ---- specialised rendering
    def spec_name(self, tname, assign):
        key = (tname, freeze(assign))
        if key not in self.spec_copies:
            self.spec_copies[key] = f"{tname}__{len([k for k in self.spec_copies if k[0] == tname]) + 1}"
            self.spec_queue.append((tname, assign))
        return self.spec_copies[key]

    def render_spec_fn(self, tname, assign):
        t = TEMPLATES[tname]
        R = Render("spec", {s: ("val", v) for s, v in assign.items()}, self, tname)
        sig = []
        for a in self.ordered_args(tname):
            if a[1] == "comptime":
                continue
            sig.append(f"{a[0]}: {R.T(a[1])}" + (" @owned" if a[2] else ""))
        name = self.spec_name(tname, assign)
        head = f"@guppy\ndef {name}({', '.join(sig)}) -> {R.T(t.ret)}:"
        body = t.body(R, self.funcs[tname])
        return head + "\n" + "\n".join("    " + ln for ln in body) + "\n"

    def render_spec_struct(self, c):
        R = Render("spec", {}, self)
        lines = [f"    {fn}: {R.T(ft)}" for fn, ft in struct_fields(c)]
        assert self.structs_needed.index(c) >= 0
        return f"@guppy.struct\nclass {mangle(c)}:\n" + "\n".join(lines) + "\n"

    # ---- main
    def render_main(self, mode, entry="main"):
        R = Render(mode, {}, self)
        lines = []
        for i, site in enumerate(self.ir["sites"]):
            tname = site["fn"]
            t = TEMPLATES[tname]
            f = self.funcs[tname]
            assign = self.full_assignment(tname, {s: tt(v) for s, v in site["inst"].items()})
            parts = []
            for a in self.ordered_args(tname):
                if a[1] == "comptime":
                    if mode == "generic" and a[0] in f["abstract"]:
                        parts.append(lit(assign[a[0]]))
                    continue
                parts.append(render_value(tt(site["args"][a[0]]), R))
            if mode == "spec":
                name = self.spec_name(tname, assign)
            else:
                name = tname
                if site.get("apply"):
                    name += "[" + ", ".join(
                        R.T(assign[s]) if isinstance(assign[s], tuple) else lit(assign[s])
                        for s in self.param_order(tname)) + "]"
            ret = subst_ty(t.ret, {s: v for s, v in assign.items()
                                   if isinstance(v, tuple) or (isinstance(v, int) and not isinstance(v, bool))})
            call = f"{name}({', '.join(parts)})"
            if ret[0] == "tuple" and len(ret[1]) >= 2:
                names = [f"r{i}_{j}" for j in range(len(ret[1]))]
                lines.append(f"{', '.join(names)} = {call}")
                comps = list(zip(names, ret[1]))
            else:
                lines.append(f"r{i} = {call}")
                comps = [(f"r{i}", ret)]
            j = 0
            for nm, ct in comps:
                for lf in leaves(nm, ct):
                    lines.append(f'result("s{i}_{j}", {lf})')
                    j += 1
        return f"@guppy\ndef {entry}() -> None:\n" + "\n".join("    " + ln for ln in lines) + "\n"

    def render(self):
        ir = self.ir
        # generic program
        decl = ['T = guppy.type_var("T", copyable=True, droppable=True)',
                'U = guppy.type_var("U", copyable=True, droppable=True)',
                'n = guppy.nat_var("n")']
        ss = ir["struct_style"]
        if ss == "legacy":
            decl += ['ST = guppy.type_var("ST", copyable=False, droppable=False)',
                     'SA = guppy.type_var("SA", copyable=False, droppable=False)',
                     'SB = guppy.type_var("SB", copyable=False, droppable=False)',
                     'Sn = guppy.nat_var("Sn")']
        gen_fns = [self.render_generic_fn(tn) for tn in ir["order"]]
        gen_main = self.render_main("generic")
        gtxt = "\n".join(gen_fns) + "\n" + gen_main
        used_structs = [s for s in STRUCTS if (s + "[") in gtxt or (s + "(") in gtxt]
        helpers = "".join(src + "\n" for ty, (nm, src) in HELPERS.items() if nm in gtxt)
        cnt = CNT_SRC if "Cnt" in gtxt else ""
        generic = ("\n".join(decl) + "\n\n" + cnt + "\n".join(self.render_generic_struct(s, ss) for s in used_structs)
                   + "\n" + helpers + gtxt)
        # specialised program
        self.structs_needed = []
        spec_main = self.render_main("spec")
        spec_fns = []
        done = 0
        while done < len(self.spec_queue):
            tname, assign = self.spec_queue[done]
            done += 1
            spec_fns.append(self.render_spec_fn(tname, assign))
        stxt = [self.render_spec_struct(c) for c in self.structs_needed]
        stext = "\n".join(spec_fns) + "\n" + spec_main
        helpers2 = "".join(src + "\n" for ty, (nm, src) in HELPERS.items() if nm in stext)
        spec = (CNT_SRC if "Cnt" in stext else "") + "\n".join(stxt) + "\n" + helpers2 + stext
        # one module with both versions: main() runs the generic call sites, then the specialised ones
        both_helpers = "".join(src + "\n" for ty, (nm, src) in HELPERS.items() if nm in gtxt or nm in stext)
        combined = ("\n".join(decl) + "\n\n" + cnt + "\n".join(self.render_generic_struct(s, ss) for s in used_structs)
                    + "\n" + "\n".join(stxt) + "\n" + both_helpers + "\n".join(gen_fns) + "\n" + "\n".join(spec_fns) + "\n"
                    + gen_main.replace("def main()", "def run_generic()") + "\n"
                    + spec_main.replace("def main()", "def run_spec()") + "\n"
                    + "@guppy\ndef main() -> None:\n    run_generic()\n    run_spec()\n")
        self.combined = combined
        return generic, spec


class GenError(Exception):
    pass


def freeze(x):
    if isinstance(x, dict):
        return tuple(sorted((k, freeze(v)) for k, v in x.items()))
    if isinstance(x, (list, tuple)):
        return tuple(freeze(y) for y in x)
    return (type(x).__name__, x) if isinstance(x, (bool, float)) else x


def tt(x):
    if isinstance(x, list):
        return tuple(tt(y) for y in x)
    if isinstance(x, dict):
        return {k: tt(v) for k, v in x.items()}
    return x


# ------------------------------------------------------------------------------ drawing the IR
def _closure(roots):
    order = []

    def add(t):
        for d in DEPS.get(t, []):
            add(d)
        if t not in order:
            order.append(t)

    for r in roots:
        add(r)
    return order


def _jt(x):
    if isinstance(x, tuple):
        return [_jt(y) for y in x]
    if isinstance(x, dict):
        return {k: _jt(v) for k, v in x.items()}
    if isinstance(x, list):
        return [_jt(y) for y in x]
    return x


MONO_KINDS = ("int", "bool", "float")  # const kinds that guppy must monomorphize (non-nat)


def _draw_slot_value(draw, t, s, assign):
    kind = t.slot_kind(s)
    if kind == "type":
        return draw(st.sampled_from(t.type_pool.get(s, TYPE_POOL)))
    if kind == "size":
        return draw(st.integers(1, 3))
    if kind.startswith("dep:"):
        return draw(st.sampled_from(DEP_POOL[assign[kind[4:]]]))
    return draw(st.sampled_from(CONST_POOL[kind]))


def _draw_assignment(draw, t, slots, base=None):
    """values for `slots` (types first so dependent constants see their type)"""
    assign = dict(base or {})
    for s in sorted(slots, key=lambda s: t.slot_kind(s).startswith("dep:")):
        assign[s] = _draw_slot_value(draw, t, s, assign)
    return assign


@st.composite
def generic_irs(draw, executable=True, max_roots=2):
    pool = [r for r in ROOTS] if executable else ["idx", "idx", "sel", "pick"]
    roots = draw(st.lists(st.sampled_from(pool), min_size=1, max_size=max_roots, unique=True))
    order = _closure(roots)
    funcs = {}
    for tname in order:
        t = TEMPLATES[tname]
        slots = [s for s, _ in t.slots]
        abstract = [s for s in slots if s in t.force_abstract or draw(st.integers(0, 4)) > 0]
        while len(abstract) < min(2, len(slots)):
            abstract.append(draw(st.sampled_from([s for s in slots if s not in abstract])))
        for s, kind in t.slots:  # a dependent constant of an abstract type must be abstract too
            if kind.startswith("dep:") and kind[4:] in abstract and s not in abstract:
                abstract.append(s)
        abstract = [s for s in slots if s in abstract]
        fixed = _draw_assignment(draw, t, [s for s in slots if s not in abstract])
        ts = [s for s in abstract if t.slot_kind(s) in ("type", "size")]
        style = draw(st.sampled_from(["legacy", "legacy", "pep", "mixed"]))
        if style == "legacy" or not ts:
            style, bracket = "legacy", []
        elif style == "pep" or len(ts) < 2:
            style, bracket = "pep", list(draw(st.permutations(ts)))
        else:
            k = draw(st.integers(1, len(ts) - 1))
            bracket = list(draw(st.permutations(ts)))[:k]
        arg_order = list(draw(st.permutations([a[0] for a in t.args])))
        monos = [a for a in arg_order if a in abstract and (t.slot_kind(a) in MONO_KINDS or t.slot_kind(a).startswith("dep:"))]
        if monos and t.first_arg is None and draw(st.booleans()):
            # a parameter that must be monomorphized in front of the ones that stay generic in the HUGR
            first = draw(st.sampled_from(monos))
            arg_order.remove(first)
            arg_order.insert(0, first)
        if t.first_arg is not None:
            arg_order.remove(t.first_arg)
            arg_order.insert(0, t.first_arg)
        bind = {}
        for key, (callee, alts) in t.calls.items():
            ct, cf = TEMPLATES[callee], funcs[callee]

            def lit_of(spec):
                if isinstance(spec, tuple):
                    return spec
                if isinstance(spec, str) and not spec.startswith("own:") and spec != "val":
                    return ("b", spec)
                return None

            def ok(alt):
                for s, spec in alt.items():
                    if s in cf["abstract"]:
                        continue
                    if spec == "val":
                        continue
                    if lit_of(spec) is not None and tt(cf["fixed"][s]) == lit_of(spec):
                        continue
                    return False
                return True

            valid = [a for a in alts if ok(a)]
            alt = draw(st.sampled_from(valid)) if valid else {s: "val" for s, _ in ct.slots}
            b = {}
            cassign = {}
            for s, kind in sorted(ct.slots, key=lambda sk: sk[1].startswith("dep:")):
                spec = alt[s]
                if s not in cf["abstract"]:
                    v = tt(cf["fixed"][s])
                    b[s] = ["val", v]
                    cassign[s] = v
                elif isinstance(spec, str) and spec.startswith("own:"):
                    b[s] = ["own", spec[4:]]
                    cassign[s] = None
                elif lit_of(spec) is not None:
                    b[s] = ["val", lit_of(spec)]
                    cassign[s] = lit_of(spec)
                else:
                    if kind.startswith("dep:") and cassign.get(kind[4:]) is None:
                        # type comes from the caller: no literal of that type can be written
                        raise GenError("dependent literal for a caller-owned type")
                    v = _draw_slot_value(draw, ct, s, cassign)
                    b[s] = ["val", v]
                    cassign[s] = v
            bind[key] = b
        funcs[tname] = {"abstract": abstract, "fixed": fixed, "style": style, "bracket": bracket,
                        "arg_order": arg_order, "bind": bind}
    # call sites
    sites = []
    targets = list(roots)
    callees = [t for t in order if t not in roots]
    if callees and draw(st.booleans()):
        targets.append(draw(st.sampled_from(callees)))  # also called directly from main
    for tname in targets:
        t = TEMPLATES[tname]
        f = funcs[tname]
        k = draw(st.integers(1, 3)) if len(targets) < 3 else draw(st.integers(1, 2))
        prev = None
        can_apply = bool(f["abstract"]) and all(t.slot_kind(s) in ("type", "size", "nat", "bool") for s in f["abstract"])
        for _ in range(k):
            if prev is not None and draw(st.integers(0, 4)) > 0:
                # share all but one argument with the previous instantiation
                mono_slots = [a for a in f["abstract"] if t.slot_kind(a) in MONO_KINDS or t.slot_kind(a).startswith("dep:")]
                s = draw(st.sampled_from(mono_slots if mono_slots and draw(st.integers(0, 2)) else f["abstract"]))
                change = [s] + [d for d, kind in t.slots if kind == "dep:" + s and d in f["abstract"]]
                inst = _draw_assignment(draw, t, change, {**tt(f["fixed"]), **prev})
                inst = {s2: inst[s2] for s2 in f["abstract"]}
                shared = True
            else:
                full = _draw_assignment(draw, t, f["abstract"], tt(f["fixed"]))
                inst = {s2: full[s2] for s2 in f["abstract"]}
                shared = False
            prev = inst
            full = {**tt(f["fixed"]), **inst}
            tenv = {s2: v for s2, v in full.items() if isinstance(v, tuple) or (isinstance(v, int) and not isinstance(v, bool))}
            args = {}
            for a in t.args:
                if a[1] == "comptime":
                    continue
                args[a[0]] = draw(value_of(subst_ty(a[1], tenv)))
            sites.append({"fn": tname, "inst": inst, "args": args, "shared": shared,
                          "apply": can_apply and draw(st.integers(0, 3)) == 0})
    return _jt({"funcs": funcs, "order": order, "roots": roots, "sites": sites,
                "struct_style": draw(st.sampled_from(["legacy", "pep"])), "executable": executable})


def build_program(ir):
    """IR -> {'generic', 'spec', 'labels', 'nontrivial', ...}; raises GenError for an IR that
    cannot be rendered (counted by the caller, never judged)."""
    P = Program(tt(ir) if False else ir)
    generic, spec = P.render()
    labels = []
    funcs = ir["funcs"]
    n_copies = {}
    for (tname, _), _nm in P.spec_copies.items():
        n_copies[tname] = n_copies.get(tname, 0) + 1
    nontrivial = any(len(funcs[t]["abstract"]) >= 2 and c >= 2 for t, c in n_copies.items())
    for tname in ir["order"]:
        f, t = funcs[tname], TEMPLATES[tname]
        labels.append("prog.tmpl:" + tname)
        labels.append("prog.style:" + f["style"])
        kinds = [t.slot_kind(s) for s in f["abstract"]]
        for k in set(kinds):
            labels.append("prog.param:" + ("dep" if k.startswith("dep:") else k))
        labels.append(f"prog.nparams:{min(len(kinds), 4)}")
        order = P.param_order(tname)
        mono = [t.slot_kind(s) in MONO_KINDS or t.slot_kind(s).startswith("dep:") for s in order]
        # a type parameter that a dependent constant refers to is monomorphized as well
        for i, s in enumerate(order):
            if any(t.slot_kind(d) == "dep:" + s for d in order):
                mono[i] = True
        if any(m and not all(mono[i + 1:]) for i, m in enumerate(mono)):
            labels.append("prog.mono_before_generic")
        if any(mono) and not all(mono):
            labels.append("prog.partial_mono")
        if t.calls:
            labels.append("prog.generic_calls_generic")
            for key, b in f["bind"].items():
                hows = {h[0] for h in b.values()}
                if hows == {"own", "val"}:
                    labels.append("prog.call_mixed_own_concrete")
                elif hows == {"own"}:
                    labels.append("prog.call_all_own")
    if any(s.get("shared") for s in ir["sites"]):
        labels.append("prog.shared_prefix")
    if any(s.get("apply") for s in ir["sites"]):
        labels.append("prog.explicit_apply")
    for sname in STRUCTS:
        if sname + "[" in generic:
            labels.append("prog.struct:" + sname)
            insts = {c for c in P.structs_needed if c[1] == sname}
            if len(insts) >= 2:
                labels.append("prog.struct_2inst")
    if max(n_copies.values(), default=0) >= 2:
        labels.append("prog.multi_inst")
    return {"generic": generic, "spec": spec, "combined": P.combined, "labels": sorted(set(labels)), "nontrivial": nontrivial,
            "n_sites": len(ir["sites"]), "n_funcs": len(ir["order"]), "n_copies": sum(n_copies.values()),
            "executable": bool(ir.get("executable", True)), "ir": ir}


@st.composite
def generic_programs(draw, executable=True, max_roots=2):
    """Valid generic programs with their specialised copies (see module docstring)."""
    for _ in range(5):
        ir = draw(generic_irs(executable=executable, max_roots=max_roots))
        try:
            return build_program(ir)
        except GenError:
            continue
    raise GenError("could not build a program in 5 draws")
