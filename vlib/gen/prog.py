"""GenProg — typed program generator (DESIGN.md 2.4).

A Hypothesis composite that *constructs* well-typed, definitely-assigned, terminating
Guppy source text in the classical fragment; nothing is filtered.  The generator carries
the environment Python and Guppy agree on (variable -> type, definitely assigned here,
loop depth, fuel) so every read is defined on all paths and joins are type-consistent by
construction.

Types are tuples: ("int",) ("bool",) ("float",) ("tuple", (t, ...)) ("struct", name)
("array", elem, n).
"""
from __future__ import annotations

from dataclasses import dataclass, field

from hypothesis import strategies as st

INT, BOOL, FLOAT = ("int",), ("bool",), ("float",)

STRUCTS = {
    "P": [("a", INT), ("b", BOOL)],
    "Q": [("t", ("tuple", (INT, FLOAT))), ("p", ("struct", "P")), ("f", FLOAT)],
}

STRUCT_SRC = """
@guppy.struct
class P:
    a: int
    b: bool

@guppy.struct
class Q:
    t: tuple[int, float]
    p: P
    f: float
"""


def ty_str(t):
    k = t[0]
    if k in ("int", "bool", "float"):
        return k
    if k == "tuple":
        return "tuple[" + ", ".join(ty_str(x) for x in t[1]) + "]"
    if k == "struct":
        return t[1]
    if k == "array":
        return f"array[{ty_str(t[1])}, {t[2]}]"
    raise ValueError(t)


def copyable(t):
    if t[0] == "array":
        return False
    if t[0] == "tuple":
        return all(copyable(x) for x in t[1])
    if t[0] == "struct":
        return all(copyable(ft) for _, ft in STRUCTS[t[1]])
    return True


def leaves(expr, t):
    """[(source, scalar type)] of the scalar leaves of a copyable value expression"""
    k = t[0]
    if k in ("int", "bool", "float"):
        return [(expr, t)]
    if k == "tuple":
        out = []
        for i, x in enumerate(t[1]):
            out += leaves(f"{expr}[{i}]", x)
        return out
    if k == "struct":
        out = []
        for f, ft in STRUCTS[t[1]]:
            out += leaves(f"{expr}.{f}", ft)
        return out
    if k == "array":
        out = []
        for i in range(t[2]):
            out += leaves(f"{expr}[{i}]", t[1])
        return out
    raise ValueError(t)


@dataclass
class Func:
    name: str
    params: list  # [(name, type)]
    ret: tuple
    pure: bool
    recursive: bool = False  # first param is the fuel


@dataclass
class Flags:
    loops: int = 0
    nested_loops: int = 0
    ifs: int = 0
    brk: int = 0
    cont: int = 0
    early_return: int = 0
    unreachable: int = 0
    same_type_cross: int = 0  # control statements entered with >= 2 same-type live vars
    starred: int = 0
    nested_def: int = 0
    recursion: int = 0
    walrus: int = 0
    chained: int = 0
    ifexp: int = 0
    arrays: int = 0
    structs: int = 0
    unpack: int = 0
    for_array: int = 0
    while_true: int = 0
    if_false: int = 0
    augassign: int = 0
    comprehension: int = 0
    big_int: int = 0
    calls: int = 0

    def labels(self):
        return [k for k, v in self.__dict__.items() if v]


SMALL_INTS = st.integers(-3, 9)
BIG_INTS = st.sampled_from([2**31 - 1, 2**31, 2**62, 2**63 - 1, -(2**63 - 1), -(2**62), 2**53 + 1, 10**9, -(10**12)])
FLOAT_LITS = st.sampled_from(["0.0", "0.5", "1.5", "-2.25", "3.0", "0.1", "1e10", "-0.75", "2.0", "100.0"])
CMP = ["<", "<=", ">", ">=", "==", "!="]


class Gen:
    def __init__(self, draw, max_depth=3, allow_tracing=True, fuel_max=4, size=1.0, prefix=""):
        self.draw = draw
        self.prefix = prefix
        self.flags = Flags()
        self.funcs: list[Func] = []
        self.counter = 0
        self.max_depth = max_depth
        self.fuel_max = fuel_max
        self.size = size
        self.tag_counter = 0

    # ---- helpers -----------------------------------------------------------------
    def d(self, s):
        return self.draw(s)

    def fresh(self, prefix="v"):
        self.counter += 1
        return f"{prefix}{self.counter}"

    def tag(self):
        self.tag_counter += 1
        return f"{self.prefix}t{self.tag_counter}"

    def pick(self, xs):
        return xs[self.d(st.integers(0, len(xs) - 1))]

    def chance(self, p):
        return self.d(st.integers(0, 99)) < p * 100

    # ---- types -------------------------------------------------------------------
    def scalar_type(self):
        return self.pick([INT, INT, BOOL, FLOAT])

    def value_type(self, depth=0):
        """a copyable type"""
        r = self.d(st.integers(0, 9))
        if r <= 5 or depth >= 2:
            return self.scalar_type()
        if r <= 7:
            n = self.d(st.integers(2, 3))
            return ("tuple", tuple(self.value_type(depth + 1) for _ in range(n)))
        return ("struct", self.pick(["P", "P", "Q"]))

    # ---- access paths ------------------------------------------------------------
    def paths(self, env, want):
        """all readable sub-values of type `want` in env: [(src)]"""
        out = []
        for v, t in env.items():
            self._paths(v, t, want, out, 0)
        return out

    def _paths(self, src, t, want, out, depth):
        if t == want and (copyable(t)):
            out.append(src)
        if depth >= 3:
            return
        k = t[0]
        if k == "tuple":
            for i, x in enumerate(t[1]):
                self._paths(f"{src}[{i}]", x, want, out, depth + 1)
        elif k == "struct":
            for f, ft in STRUCTS[t[1]]:
                self._paths(f"{src}.{f}", ft, want, out, depth + 1)
        elif k == "array":
            if t[2] > 0 and copyable(t[1]):
                for i in range(t[2]):
                    self._paths(f"{src}[{i}]", t[1], want, out, depth + 1)

    # ---- expressions -------------------------------------------------------------
    def expr(self, env, t, depth=0, pure_only=True):
        k = t[0]
        if k == "int":
            return self.int_expr(env, depth)
        if k == "bool":
            return self.bool_expr(env, depth)
        if k == "float":
            return self.float_expr(env, depth)
        return self.compound_expr(env, t, depth)

    def callable_funcs(self, ret, local_funcs=()):
        return [f for f in list(self.funcs) + list(local_funcs) if f.ret == ret and f.pure]

    def call_expr(self, env, f, depth):
        args = []
        for i, (pn, pt) in enumerate(f.params):
            if f.recursive and i == 0:
                args.append(str(self.d(st.integers(0, 3))))
            else:
                args.append(self.expr(env, pt, depth + 1))
        self.flags.calls += 1
        return f"{f.name}({', '.join(args)})"

    def int_lit(self):
        if self.chance(0.12):
            self.flags.big_int += 1
            v = self.d(BIG_INTS)
        else:
            v = self.d(SMALL_INTS)
        return str(v) if v >= 0 else f"({v})"

    def int_expr(self, env, depth=0):
        leafy = depth >= self.max_depth or self.chance(0.35)
        if leafy:
            ps = self.paths(env, INT)
            if ps and self.chance(0.7):
                return self.pick(ps)
            return self.int_lit()
        r = self.d(st.integers(0, 12))
        if r <= 4:
            op = self.pick(["+", "-", "*", "+", "-"])
            return f"({self.int_expr(env, depth + 1)} {op} {self.int_expr(env, depth + 1)})"
        if r == 5:
            op = self.pick(["//", "%"])
            return f"({self.int_expr(env, depth + 1)} {op} {self.d(st.integers(1, 7))})"
        if r == 6:
            return f"(-{self.int_expr(env, depth + 1)})"
        if r == 7:
            op = self.pick(["&", "|", "^"])
            return f"({self.int_expr(env, depth + 1)} {op} {self.int_expr(env, depth + 1)})"
        if r == 8:
            self.flags.ifexp += 1
            return f"({self.int_expr(env, depth + 1)} if {self.bool_expr(env, depth + 1)} else {self.int_expr(env, depth + 1)})"
        if r == 9:
            fs = self.callable_funcs(INT, getattr(self, "_local_funcs", ()))
            if fs:
                return self.call_expr(env, self.pick(fs), depth)
        if r == 10:
            arrs = [v for v, t in env.items() if t[0] == "array"]
            if arrs:
                return f"len({self.pick(arrs)})"
        if r == 11:
            arrs = [(v, t) for v, t in env.items() if t[0] == "array" and t[1] == INT and t[2] > 0]
            if arrs:
                v, t = self.pick(arrs)
                return f"{v}[{self.int_expr(env, depth + 1)} % {t[2]}]"
        return f"({self.int_expr(env, depth + 1)} + {self.int_expr(env, depth + 1)})"

    def bool_expr(self, env, depth=0):
        leafy = depth >= self.max_depth or self.chance(0.25)
        if leafy:
            ps = self.paths(env, BOOL)
            if ps and self.chance(0.6):
                return self.pick(ps)
            if self.chance(0.3):
                return self.pick(["True", "False"])
            return f"({self.int_expr(env, self.max_depth)} {self.pick(CMP)} {self.int_expr(env, self.max_depth)})"
        r = self.d(st.integers(0, 9))
        if r <= 2:
            return f"({self.int_expr(env, depth + 1)} {self.pick(CMP)} {self.int_expr(env, depth + 1)})"
        if r == 3:
            return f"({self.float_expr(env, depth + 1)} {self.pick(CMP)} {self.float_expr(env, depth + 1)})"
        if r == 4:
            self.flags.chained += 1
            return (f"({self.int_expr(env, depth + 1)} {self.pick(CMP)} {self.int_expr(env, depth + 1)} "
                    f"{self.pick(CMP)} {self.int_expr(env, depth + 1)})")
        if r == 5:
            return f"(not {self.bool_expr(env, depth + 1)})"
        if r <= 7:
            op = self.pick(["and", "or"])
            return f"({self.bool_expr(env, depth + 1)} {op} {self.bool_expr(env, depth + 1)})"
        if r == 8:
            self.flags.ifexp += 1
            return f"({self.bool_expr(env, depth + 1)} if {self.bool_expr(env, depth + 1)} else {self.bool_expr(env, depth + 1)})"
        fs = self.callable_funcs(BOOL, getattr(self, "_local_funcs", ()))
        if fs:
            return self.call_expr(env, self.pick(fs), depth)
        return f"({self.int_expr(env, depth + 1)} {self.pick(CMP)} {self.int_expr(env, depth + 1)})"

    def float_expr(self, env, depth=0):
        leafy = depth >= self.max_depth or self.chance(0.4)
        if leafy:
            ps = self.paths(env, FLOAT)
            if ps and self.chance(0.7):
                return self.pick(ps)
            v = self.d(FLOAT_LITS)
            return v if not v.startswith("-") else f"({v})"
        r = self.d(st.integers(0, 6))
        if r <= 3:
            op = self.pick(["+", "-", "*"])
            return f"({self.float_expr(env, depth + 1)} {op} {self.float_expr(env, depth + 1)})"
        if r == 4:
            return f"(-{self.float_expr(env, depth + 1)})"
        if r == 5:
            self.flags.ifexp += 1
            return f"({self.float_expr(env, depth + 1)} if {self.bool_expr(env, depth + 1)} else {self.float_expr(env, depth + 1)})"
        fs = self.callable_funcs(FLOAT, getattr(self, "_local_funcs", ()))
        if fs:
            return self.call_expr(env, self.pick(fs), depth)
        return f"({self.float_expr(env, depth + 1)} + {self.float_expr(env, depth + 1)})"

    def compound_expr(self, env, t, depth=0):
        ps = self.paths(env, t) if copyable(t) else []
        if ps and (depth >= self.max_depth or self.chance(0.4)):
            return self.pick(ps)
        if copyable(t) and depth < self.max_depth:
            r = self.d(st.integers(0, 9))
            if r == 0:
                self.flags.ifexp += 1
                return f"({self.compound_expr(env, t, depth + 1)} if {self.bool_expr(env, depth + 1)} else {self.compound_expr(env, t, depth + 1)})"
            if r == 1:
                fs = self.callable_funcs(t, getattr(self, "_local_funcs", ()))
                if fs:
                    return self.call_expr(env, self.pick(fs), depth)
        k = t[0]
        if k == "tuple":
            return "(" + ", ".join(self.expr(env, x, depth + 1) for x in t[1]) + ")"
        if k == "struct":
            self.flags.structs += 1
            return f"{t[1]}(" + ", ".join(self.expr(env, ft, depth + 1) for _, ft in STRUCTS[t[1]]) + ")"
        if k == "array":
            self.flags.arrays += 1
            if t[2] > 0 and t[1] == INT and self.chance(0.2):
                self.flags.comprehension += 1
                iv = self.fresh("c")
                env2 = dict(env)
                env2[iv] = INT
                return f"array({self.int_expr(env2, self.max_depth - 1)} for {iv} in range({t[2]}))"
            return "array(" + ", ".join(self.expr(env, t[1], depth + 1) for _ in range(t[2])) + ")"
        raise ValueError(t)

    # ---- statements ----------------------------------------------------------------
    def block(self, env, c, depth, n_stmts):
        """-> (lines, env_out, terminated)"""
        lines = []
        env = dict(env)
        for _ in range(n_stmts):
            ls, env, term = self.stmt(env, c, depth)
            lines += ls
            if term:
                # unreachable tail
                if self.chance(0.3):
                    self.flags.unreachable += 1
                    ls2, _, _ = self.simple_stmt(dict(env), c)
                    lines += ls2
                return lines, env, True
        if not lines:
            lines = ["pass"]
        return lines, env, False

    def assign_target(self, env, c, t):
        """name to assign a value of type t to, respecting the loop rule"""
        same = [v for v, vt in env.items() if vt == t and v not in c.get("protected", ())]
        if same and self.chance(0.5):
            return self.pick(same)
        return self.fresh()

    def simple_stmt(self, env, c):
        r = self.d(st.integers(0, 11))
        env = dict(env)
        if r <= 3:
            t = self.value_type()
            v = self.assign_target(env, c, t)
            e = self.expr(env, t)
            if self.chance(0.2):
                line = f"{v}: {ty_str(t)} = {e}"
            else:
                line = f"{v} = {e}"
            env[v] = t
            return [line], env, False
        if r == 4:
            # augmented assignment
            cands = [(v, t) for v, t in env.items() if t in (INT, FLOAT) and v not in c.get("protected", ())]
            if cands:
                v, t = self.pick(cands)
                self.flags.augassign += 1
                if t == INT:
                    op = self.pick(["+=", "-=", "*=", "//=", "%=", "&=", "|=", "^="])
                    rhs = str(self.d(st.integers(1, 7))) if op in ("//=", "%=") else self.int_expr(env, 1)
                else:
                    op = self.pick(["+=", "-=", "*="])
                    rhs = self.float_expr(env, 1)
                return [f"{v} {op} {rhs}"], env, False
        if r == 5 and c["tracing"]:
            t = self.scalar_type()
            return [f'result("{self.tag()}", {self.expr(env, t)})'], env, False
        if r == 6:
            # tuple unpacking (possibly nested)
            t = ("tuple", (self.value_type(1), self.value_type(1)))
            if self.chance(0.3):
                t = ("tuple", (t, self.scalar_type()))
            e = self.compound_expr(env, t)
            pat, binds = self.pattern(t, env, c)
            self.flags.unpack += 1
            for v, vt in binds:
                env[v] = vt
            return [f"{pat} = {e}"], env, False
        if r == 7:
            # array creation
            et = self.pick([INT, INT, BOOL, FLOAT, ("tuple", (INT, BOOL))])
            n = self.d(st.integers(1, 4))
            t = ("array", et, n)
            v = self.assign_target(env, c, t)
            e = self.compound_expr(env, t)
            env[v] = t
            self.flags.arrays += 1
            return [f"{v} = {e}"], env, False
        if r == 8:
            # array element write
            arrs = [(v, t) for v, t in env.items() if t[0] == "array" and t[2] > 0]
            if arrs:
                v, t = self.pick(arrs)
                idx = str(self.d(st.integers(0, t[2] - 1))) if self.chance(0.5) else f"{self.int_expr(env, 2)} % {t[2]}"
                if t[1] in (INT, FLOAT) and self.chance(0.3):
                    self.flags.augassign += 1
                    rhs = self.int_expr(env, 2) if t[1] == INT else self.float_expr(env, 2)
                    if "%" in idx:
                        idx = str(self.d(st.integers(0, t[2] - 1)))
                    return [f"{v}[{idx}] {self.pick(['+=', '-=', '*='])} {rhs}"], env, False
                return [f"{v}[{idx}] = {self.expr(env, t[1], 1)}"], env, False
        if r == 9:
            # starred / plain unpacking of an int array copy
            arrs = [(v, t) for v, t in env.items() if t[0] == "array" and t[2] >= 2 and copyable(t[1])]
            if arrs:
                v, t = self.pick(arrs)
                n = t[2]
                self.flags.unpack += 1
                if self.chance(0.6):
                    self.flags.starred += 1
                    k = self.d(st.integers(0, n))  # number of non-starred
                    pre = self.d(st.integers(0, k))
                    names = [self.fresh() for _ in range(k)]
                    star = self.fresh()
                    parts = names[:pre] + ["*" + star] + names[pre:]
                    for nm in names:
                        env[nm] = t[1]
                    env[star] = ("array", t[1], n - k)
                    lhs = ", ".join(parts)
                    if len(parts) == 1:
                        lhs = f"[{lhs}]"
                    return [f"{lhs} = {v}.copy()"], env, False
                names = [self.fresh() for _ in range(n)]
                for nm in names:
                    env[nm] = t[1]
                return [f"{', '.join(names)} = {v}.copy()"], env, False
        if r == 10 and c["tracing"]:
            # call of a tracing (result-reporting) function at statement level
            fs = [f for f in self.funcs if not f.pure]
            if fs:
                f = self.pick(fs)
                args = ", ".join(self.expr(env, pt, 1) for _, pt in f.params)
                v = self.assign_target(env, c, f.ret)
                env[v] = f.ret
                self.flags.calls += 1
                return [f"{v} = {f.name}({args})"], env, False
        if r == 11 and self.chance(0.5):
            return ["pass"], env, False
        t = self.scalar_type()
        v = self.assign_target(env, c, t)
        e = self.expr(env, t)
        env[v] = t
        return [f"{v} = {e}"], env, False

    def pattern(self, t, env, c):
        """unpacking pattern for a tuple type -> (src, [(name, type)])"""
        parts, binds = [], []
        for x in t[1]:
            if x[0] == "tuple" and self.chance(0.6):
                p, b = self.pattern(x, env, c)
                parts.append(f"({p})")
                binds += b
            else:
                v = self.fresh()
                parts.append(v)
                binds.append((v, x))
        return ", ".join(parts), binds

    @staticmethod
    def indent(lines):
        return ["    " + l for l in lines]

    def join(self, envs):
        """variables defined with the same type on all (non-terminated) incoming paths"""
        envs = list(envs)
        if not envs:
            return {}
        out = {}
        for v, t in envs[0].items():
            if all(e.get(v) == t for e in envs[1:]):
                out[v] = t
        return out

    def note_cross(self, env):
        seen = {}
        for v, t in env.items():
            if copyable(t):
                seen[t] = seen.get(t, 0) + 1
        if any(n >= 2 for n in seen.values()):
            self.flags.same_type_cross += 1

    def stmt(self, env, c, depth):
        if depth >= self.max_depth:
            return self.simple_stmt(env, c)
        r = self.d(st.integers(0, 19))
        if r <= 8:
            return self.simple_stmt(env, c)
        nb = lambda: self.d(st.integers(1, 3))  # noqa: E731
        if r <= 11:
            return self.if_stmt(env, c, depth, nb)
        if r <= 13:
            return self.while_stmt(env, c, depth, nb)
        if r <= 15:
            return self.for_stmt(env, c, depth, nb)
        if r == 16 and c["loop"] > 0:
            # conditional break / continue
            kw = self.pick(["break", "continue"])
            if kw == "break":
                self.flags.brk += 1
            else:
                self.flags.cont += 1
            cond = self.bool_expr(env, 1)
            pre, envb, _ = self.block(env, c, depth + 1, self.d(st.integers(0, 1))) if self.chance(0.4) else ([], env, False)
            pre = [l for l in pre if l != "pass"]
            return [f"if {cond}:"] + self.indent(pre + [kw]), env, False
        if r == 17:
            # conditional early return
            self.flags.early_return += 1
            cond = self.bool_expr(env, 1)
            body, envb, term = self.block(env, c, depth + 1, self.d(st.integers(0, 2)))
            body = [l for l in body if l != "pass"]
            if not term:
                body.append(f"return {self.expr(envb, c['ret'], 1)}")
            return [f"if {cond}:"] + self.indent(body), env, False
        if r == 18 and depth == 0 and not c.get("in_nested"):
            return self.nested_def(env, c)
        if r == 19:
            if self.chance(0.5):
                # if False: (never taken, arbitrary well-typed body)
                self.flags.if_false += 1
                self.flags.unreachable += 1
                body, _, _ = self.block(env, c, depth + 1, nb())
                return ["if False:"] + self.indent(body), env, False
            return self.while_true(env, c, depth, nb)
        return self.simple_stmt(env, c)

    def cond_with_walrus(self, env):
        """-> (cond_src, env_after_cond)"""
        if self.chance(0.15):
            self.flags.walrus += 1
            v = self.fresh("w")
            e = self.int_expr(env, 1)
            env2 = dict(env)
            env2[v] = INT
            return f"({v} := {e}) {self.pick(CMP)} {self.int_expr(env, 2)}", env2
        return self.bool_expr(env, 0), dict(env)

    def if_stmt(self, env, c, depth, nb):
        self.flags.ifs += 1
        self.note_cross(env)
        cond, env1 = self.cond_with_walrus(env)
        lines = [f"if {cond}:"]
        b, e1, t1 = self.block(env1, c, depth + 1, nb())
        lines += self.indent(b)
        outs = [] if t1 else [e1]
        n_elif = self.d(st.integers(0, 1)) if self.chance(0.3) else 0
        for _ in range(n_elif):
            lines.append(f"elif {self.bool_expr(env1, 1)}:")
            b, e2, t2 = self.block(env1, c, depth + 1, nb())
            lines += self.indent(b)
            if not t2:
                outs.append(e2)
        if self.chance(0.65):
            lines.append("else:")
            b, e3, t3 = self.block(env1, c, depth + 1, nb())
            lines += self.indent(b)
            if not t3:
                outs.append(e3)
        else:
            outs.append(env1)
        if not outs:
            # all branches terminated: following code is unreachable
            return lines, env1, True
        return lines, self.join(outs), False

    def loop_body_ctx(self, c, env):
        c2 = dict(c)
        c2["loop"] = c["loop"] + 1
        return c2

    def restrict_loop_env(self, env_before, env_after_body):
        """after a loop only variables defined before it (with unchanged type) survive"""
        return {v: t for v, t in env_before.items() if env_after_body.get(v, t) == t}

    def while_stmt(self, env, c, depth, nb):
        self.flags.loops += 1
        if c["loop"] > 0:
            self.flags.nested_loops += 1
        self.note_cross(env)
        fuel = self.fresh("fuel")
        n = self.d(st.integers(0, self.fuel_max))
        lines = [f"{fuel} = {n}"]
        env = dict(env)
        env[fuel] = INT
        cond = self.bool_expr(env, 1)
        if self.chance(0.15):
            self.flags.walrus += 1
            wv = self.fresh("w")
            head = f"while ({wv} := {fuel}) > 0 and {cond}:"
            env[wv] = INT
        else:
            head = f"while {fuel} > 0 and {cond}:"
        c2 = self.loop_body_ctx(c, env)
        c2["protected"] = set(c.get("protected", ())) | {fuel}
        body, eb, term = self.body_block(env, c2, depth + 1, nb())
        lines += [head] + self.indent([f"{fuel} -= 1"] + body)
        return lines, self.restrict_loop_env(env, eb), False

    def body_block(self, env, c, depth, n):
        """loop body: assignments to variables that exist before the loop must keep their
        type; enforced by re-typing: names whose type changed are renamed away."""
        lines, eb, term = self.block(env, c, depth, n)
        bad = [v for v, t in env.items() if v in eb and eb[v] != t]
        if bad:
            # regenerate conservatively: a body of simple type-preserving statements
            lines, eb = [], dict(env)
            for _ in range(n):
                cands = [(v, t) for v, t in env.items() if t in (INT, FLOAT, BOOL) and v not in c.get("protected", ())]
                if cands:
                    v, t = self.pick(cands)
                    lines.append(f"{v} = {self.expr(eb, t, 1)}")
                else:
                    lines.append("pass")
            term = False
        return lines, eb, term

    def while_true(self, env, c, depth, nb):
        self.flags.loops += 1
        self.flags.while_true += 1
        if c["loop"] > 0:
            self.flags.nested_loops += 1
        fuel = self.fresh("fuel")
        n = self.d(st.integers(0, self.fuel_max))
        env = dict(env)
        env[fuel] = INT
        c2 = self.loop_body_ctx(c, env)
        c2["protected"] = set(c.get("protected", ())) | {fuel}
        body, eb, term = self.body_block(env, c2, depth + 1, nb())
        lines = [f"{fuel} = {n}", "while True:"] + self.indent(
            [f"{fuel} -= 1", f"if {fuel} < 0:", "    break"] + body)
        self.flags.brk += 1
        return lines, self.restrict_loop_env(env, eb), False

    def for_stmt(self, env, c, depth, nb):
        self.flags.loops += 1
        if c["loop"] > 0:
            self.flags.nested_loops += 1
        self.note_cross(env)
        env = dict(env)
        arrs = [(v, t) for v, t in env.items() if t[0] == "array" and copyable(t[1])]
        r = self.d(st.integers(0, 5))
        pre = []
        if r <= 1 and arrs:
            self.flags.for_array += 1
            v, t = self.pick(arrs)
            it, et = f"{v}.copy()", t[1]
        elif r == 2:
            self.flags.for_array += 1
            et = self.pick([INT, FLOAT, ("tuple", (INT, BOOL))])
            t = ("array", et, self.d(st.integers(0, 3)))
            if t[2] == 0:
                # empty array literal needs an annotation
                av = self.fresh("a")
                pre = [f"{av}: {ty_str(t)} = array()"]
                it = av
            else:
                it = "array(" + ", ".join(self.expr(env, et, 2) for _ in range(t[2])) + ")"
        elif r == 3:
            a, b = self.d(st.integers(-3, 3)), self.d(st.integers(-3, 6))
            s = self.pick([1, 2, 3, -1, -2])
            it, et = f"range({a}, {b}, {s})", INT
        elif r == 4:
            it, et = f"range({self.d(st.integers(-1, 2))}, {self.d(st.integers(0, 4))})", INT
        else:
            it, et = f"range({self.d(st.integers(0, 4))})", INT
        # loop variable: fresh, or an existing variable of the same type
        same = [v for v, vt in env.items() if vt == et and v not in c.get("protected", ())]
        if same and self.chance(0.25):
            lv = self.pick(same)
        else:
            lv = self.fresh("i")
        c2 = self.loop_body_ctx(c, env)
        envb = dict(env)
        envb[lv] = et
        c2["protected"] = set(c.get("protected", ()))
        if et[0] == "tuple" and self.chance(0.5):
            # unpack in the for target
            a, b = self.fresh("i"), self.fresh("i")
            envb.pop(lv, None)
            envb[a], envb[b] = et[1][0], et[1][1]
            target = f"{a}, {b}"
        else:
            target = lv
        body, eb, term = self.body_block(envb, c2, depth + 1, nb())
        lines = pre + [f"for {target} in {it}:"] + self.indent(body)
        return lines, self.restrict_loop_env(env, eb), False

    def nested_def(self, env, c):
        self.flags.nested_def += 1
        name = self.fresh("h")
        n = self.d(st.integers(1, 2))
        params = [(self.fresh("p"), self.pick([INT, INT, FLOAT, BOOL])) for _ in range(n)]
        ret = self.pick([INT, BOOL, FLOAT])
        penv = dict(params)
        saved = getattr(self, "_local_funcs", ())
        self._local_funcs = ()
        c2 = {"ret": ret, "loop": 0, "tracing": False, "in_nested": True}
        body, eb, term = self.block(penv, c2, self.max_depth - 1, self.d(st.integers(0, 2)))
        body = [l for l in body if l != "pass"]
        if not term:
            body.append(f"return {self.expr(eb, ret, 1)}")
        self._local_funcs = tuple(saved) + (Func(name, params, ret, True),)
        sig = ", ".join(f"{p}: {ty_str(t)}" for p, t in params)
        lines = [f"def {name}({sig}) -> {ty_str(ret)}:"] + self.indent(body)
        return lines, dict(env), False

    # ---- functions ---------------------------------------------------------------------
    def function(self, idx, pure):
        name = f"{self.prefix}f{idx}"
        n = self.d(st.integers(0, 3))
        params = [(self.fresh("a"), self.value_type()) for _ in range(n)]
        ret = self.value_type()
        recursive = pure and self.chance(0.2)
        if recursive:
            self.flags.recursion += 1
            params = [(self.fresh("n"), INT)] + params
        f = Func(name, params, ret, pure, recursive)
        env = dict(params)
        c = {"ret": ret, "loop": 0, "tracing": not pure, "protected": set()}
        self._local_funcs = ()
        lines = []
        if recursive:
            nm = params[0][0]
            c["protected"] = {nm}
            lines += [f"if {nm} <= 0:", f"    return {self.expr({k: v for k, v in env.items()}, ret, 1)}"]
            # recursive call with decreasing fuel: bind the result first
            rv = self.fresh("r")
            args = [f"{nm} - 1"] + [self.expr(env, pt, 1) for _, pt in params[1:]]
            lines.append(f"{rv} = {name}({', '.join(args)})")
            env[rv] = ret
        body, eb, term = self.block(env, c, 0, self.d(st.integers(1, max(2, int(5 * self.size)))))
        lines += [l for l in body]
        if not term:
            lines.append(f"return {self.expr(eb, ret, 0)}")
        self._local_funcs = ()
        sig = ", ".join(f"{p}: {ty_str(t)}" for p, t in params)
        src = [f"@guppy", f"def {name}({sig}) -> {ty_str(ret)}:"] + self.indent(lines)
        self.funcs.append(f)
        return src

    def arg_literal(self, t):
        k = t[0]
        if k == "int":
            if self.chance(0.2):
                v = self.d(BIG_INTS)
            else:
                v = self.d(st.integers(-5, 12))
            return str(v) if v >= 0 else f"({v})"
        if k == "bool":
            return self.pick(["True", "False"])
        if k == "float":
            v = self.d(FLOAT_LITS)
            return v if not v.startswith("-") else f"({v})"
        if k == "tuple":
            return "(" + ", ".join(self.arg_literal(x) for x in t[1]) + ")"
        if k == "struct":
            return f"{t[1]}(" + ", ".join(self.arg_literal(ft) for _, ft in STRUCTS[t[1]]) + ")"
        raise ValueError(t)

    def main(self, n_calls=(2, 4)):
        lines = []
        k = 0
        for f in self.funcs:
            for _ in range(self.d(st.integers(*n_calls))):
                args = []
                for i, (pn, pt) in enumerate(f.params):
                    if f.recursive and i == 0:
                        args.append(str(self.d(st.integers(0, 4))))
                    else:
                        args.append(self.arg_literal(pt))
                rv = f"r{k}"
                lines.append(f"{rv} = {f.name}({', '.join(args)})")
                for j, (src, lt) in enumerate(leaves(rv, f.ret)):
                    lines.append(f'result("{f.name}_{k}_{j}", {src})')
                k += 1
        return ["@guppy", f"def {self.prefix}main() -> None:"] + self.indent(lines)


def _one(draw, n_funcs, max_depth, size, fuel_max, prefix):
    g = Gen(draw, max_depth=max_depth, fuel_max=fuel_max, size=size, prefix=prefix)
    n = draw(st.integers(*n_funcs))
    parts = []
    for i in range(n):
        pure = g.chance(0.5) if i < n - 1 else False
        parts.append("\n".join(g.function(i, pure)))
    parts.append("\n".join(g.main()))
    fl = g.flags
    nontrivial = bool((fl.loops >= 1 or fl.ifs >= 2) and fl.same_type_cross >= 1)
    return "\n\n".join(parts) + "\n", fl.labels(), nontrivial


@st.composite
def programs(draw, n_funcs=(1, 4), max_depth=3, size=1.0, fuel_max=4):
    """-> dict(src=<module body without import prelude>, labels=[...], nontrivial=bool)"""
    body, labels, nontrivial = _one(draw, n_funcs, max_depth, size, fuel_max, "")
    return {"src": STRUCT_SRC.strip("\n") + "\n\n" + body, "labels": labels, "nontrivial": nontrivial}


@st.composite
def program_batches(draw, k=4, n_funcs=(1, 3), max_depth=3, size=1.0, fuel_max=4):
    """k independent programs in one module (one selene build): program i uses the name prefix
    `p{i}_` for its functions, its main and its result tags; the module's `main` calls them in turn.
    -> dict(src, parts=[standalone source of each program], labels=[[...]], nontrivial=[bool])"""
    bodies, labels, nts = [], [], []
    for i in range(k):
        b, l, nt = _one(draw, n_funcs, max_depth, size, fuel_max, f"p{i}_")
        bodies.append(b)
        labels.append(l)
        nts.append(nt)
    head = STRUCT_SRC.strip("\n") + "\n\n"
    main = "@guppy\ndef main() -> None:\n" + "".join(f"    p{i}_main()\n" for i in range(k))
    parts = [head + b + f"\n@guppy\ndef main() -> None:\n    p{i}_main()\n" for i, b in enumerate(bodies)]
    return {"src": head + "\n".join(bodies) + "\n" + main, "parts": parts, "labels": labels, "nontrivial": nts}
