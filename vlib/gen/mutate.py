"""Near-miss mutators over generated Guppy programs (C02, DESIGN.md 4/C02).

`mutate(draw, src, n)` parses a GenProg module body, applies `n` mutators chosen by Hypothesis on
the AST of its @guppy functions and returns the unparsed source (always syntactically valid
Python: the result is re-compiled, otherwise the mutation is dropped)."""
from __future__ import annotations

import ast
import copy

from hypothesis import strategies as st

TYPE_NAMES = ["int", "bool", "float", "nat", "qubit", "str", "None", "P", "Q", "Foo", "T", "array[int, 2]",
              "array[int]", "array[int, -1]", "array[qubit, 2]", "list[int]", "tuple[int]", "tuple[int, bool]",
              "P[int]", "int[int]", "array[int, n]", "Callable[[int], int]", "tuple[()]", "array", "1", "'int'",
              "owned", "int @ owned", "qubit @ owned", "int @ comptime", "array[int, 2] @ owned", "Option[int]"]

EXPR_SNIPPETS = [
    "undefined_name", "(lambda a: a)(1)", "{1: 2}", "{1, 2}", "[1, 2]", "[i for i in range(3)]", "f'{1}'", "'abc'",
    "b'ab'", "None", "...", "2j", "2 ** 70", "-(2 ** 63) - 1", "1 if True else 'a'", "(1, 2)[5]", "(1, 2)[-1]",
    "(1).bit_length()", "len(5)", "int", "array", "P", "P(1)", "P(1, True, 3)", "P(1, True).zzz", "P(a=1, b=True)",
    "1 is 1", "1 in (1, 2)", "1 < 'a'", "'a' + 1", "None + 1", "1 + True", "True + True", "1.5 // 0.5", "1 / 0",
    "1 // 0", "1 << 70", "2 ** -1", "not (1, 2)", "-True", "~1.5", "array(1, 2)[0:1]", "array(1, 2)[::2]",
    "array()", "array(1, True)", "array(x for x in 5)", "array(x for x in range(3) if x > 1)",
    "array(x + y for x in range(2) for y in range(2))", "array(1, 2, 3)[1.5]", "array(1, 2)[True]", "range(1.5)",
    "comptime(undefined_xyz)", "comptime(1 / 0)", "comptime([1, 'a'])", "comptime(object())", "comptime(lambda: 1)",
    "comptime(2 ** 70)", "comptime((1, [2, 3]))", "comptime({1: 2})", "comptime(1.5) + 1", "py(1 + 1)",
    "qubit()", "measure(qubit())", "measure(1)", "discard(qubit())", "h(qubit())", "(qubit(), qubit())",
    "array(qubit(), qubit())", "result", "result('a', 1)", "panic", "panic('x')", "panic(1)", "exit('m', 1)",
    "barrier()", "(yield)", "abs('a')", "divmod(1)", "pow(1, 2, 3)", "float('1.5')", "int(1.5, 2)", "bool(qubit())",
    "g_undefined(1)", "(1)(2)", "(1, 2)(3)", "1 .real", "*[1, 2]", "(a := 1)", "(1, *(2, 3))", "nat(-1)", "nat(1.5)",
    "1 @ 2", "1 if (2, 3) else 4", "(1, 2) == (1, 2)", "'a' == 'a'", "None == None", "None is None", "True < False",
    "array(x async for x in range(3))", "array(x for x in range(3) async for y in range(2))", "(x async for x in range(3))",
    "(await 1)", "array(await x for x in range(2))",
    "1 < 2 < 'a'", "1 and 2", "0 or 'a'", "not None", "P(1, True) == P(1, True)", "P(1, True) < P(1, True)",
]

# parametrised snippets: every «K» is replaced by a drawn small integer (-4..5), every «PAY» by a drawn
# comptime payload - so that boundary positions (index == length, == -length - 1, ...) and payload
# positions are searched rather than listed
PARAM_SNIPPETS = [
    "(1, 2, 3)[«K»]", "(1, True)[«K»]", "((1, 2), 3)[«K»][«K»]", "P(1, True).a + (1, 2)[«K»]", "array(1, 2, 3)[«K»]",
    "comptime(«PAY», «PAY»)", "py(«PAY», «PAY»)", "comptime(«PAY», «PAY», «PAY»)", "comptime(«PAY»)", "py(«PAY»)",
    "comptime((«PAY», «PAY»))", "comptime([«PAY», «PAY»])", "(«K»).__add__(«K»)", "1 << «K»", "2 ** «K»", "array(1, 2)[«K»:«K»]",
    "range(«K», «K», «K»)", "nat(«K»)", "(1, 2, 3)[«K»] + (1, 2, 3)[«K»]", "divmod(«K», «K»)", "pow(2, «K»)",
]
PAYLOADS = ["1", "2 ** 70", "-(2 ** 63) - 1", "{1, 2}", "{1: 2}", "1 / 0", "undefined_pay", "'s'", "1.5", "True", "None",
            "[1, 2]", "[1, 'a']", "(1, 2)", "object()", "[]", "lambda: 1", "2 ** 63", "[2 ** 64]", "(1, [2.5])"]


def fill_params(draw, snippet):
    while "«K»" in snippet:
        snippet = snippet.replace("«K»", str(draw(st.integers(-4, 5))), 1)
    while "«PAY»" in snippet:
        snippet = snippet.replace("«PAY»", draw(st.sampled_from(PAYLOADS)), 1)
    return snippet


WRAPS = ["({e} if True else {e})", "({e} if {e} else {e})", "(w_ := {e})", "({e}, {e})[0]", "({e},)", "int({e})", "float({e})",
         "bool({e})", "comptime({e})", "(-{e})", "(not {e})", "({e} + 1)", "({e} and {e})", "({e} or True)", "{e}[0]", "{e}.a",
         "{e}()", "array({e})", "array({e}, {e})[0]", "[{e}]", "len({e})", "({e} < {e} < {e})", "abs({e})", "({e} == {e})",
         "P({e}, True).a", "P(1, {e}).b", "({e} if {e} > 0 else 0)", "nat({e})", "{e}.copy()", "(lambda: {e})()", "({e} is None)",
         "({e} // {e})", "({e} ** 2)", "({e} @ {e})", "range({e})", "some({e})", "some({e}).unwrap()", "py({e})", "(yield {e})",
         "({e})[{e}]", "{e}[{e} if True else 0]", "measure({e})", "discard({e})"]

STMT_WRAPS = ["if True:\n    BODY", "if False:\n    BODY", "while False:\n    BODY", "for i_ in range(2):\n    BODY",
              "while True:\n    BODY\n    break", "def inner_w() -> None:\n    BODY\ninner_w()", "with dagger:\n    BODY",
              "with control(qubit()):\n    BODY", "if True:\n    pass\nelse:\n    BODY", "for i_ in array(1, 2):\n    BODY",
              "try:\n    BODY\nfinally:\n    pass", "if qq_undefined:\n    BODY"]

STMT_SNIPPETS = [
    "_ @ functional\nfz_ = 1", "_ @ functional", "_ @ functional\nif True:\n    pass", "_ @ functional\nwhile False:\n    pass",
    "_ @ undefined_pragma\nfz_ = 1", "fz_ @ functional",
    "async for i_ in range(2):\n    pass", "async with dagger:\n    pass",
    "p_ = P(1, True)\na_, *p_.a = array(1, 2, 3)",
    "xs_ = array(array(1), array(2))\na_, *xs_[0] = array(1, 2)",
    "a_, *(b_, c_) = array(1, 2, 3)",
    "if False:\n    dd_ = undefined_in_dead_code",
    "if False:\n    dd_ = 1\n    ee_ = dd_ + undefined_dead2",
    "if True:\n    pass\nelse:\n    dd_ = undefined_dead3",
    "while False:\n    dd_ = undefined_dead4",
    "if False:\n    dd_ = later_assigned_\nlater_assigned_ = 1",
    "if False:\n    result('dead', 1.5 + 'a')",
    "if False:\n    qd_ = qubit()",
    "cnd_ = 1 > 0\nif cnd_:\n    alpha = 1\n    beta = 2\nelse:\n    alpha = 1.5\n    beta = True\ngam_ = alpha\ndel_ = beta",
    "cnd_ = 1 > 0\nif cnd_:\n    zeta = 1\n    eta = 2\n    theta = 3\nelse:\n    zeta = True\n    eta = 2.5\n    theta = (1, 2)\nr1_ = (zeta, eta, theta)",
    "cnd_ = 1 > 0\nif cnd_:\n    kappa = 1\nelse:\n    lam = 2\nr2_ = kappa\nr3_ = lam",
    "cnd_ = 1 > 0\nmu = 1\nnu = 2\nwhile cnd_:\n    mu = 1.5\n    nu = True\n    cnd_ = False\nr4_ = mu\nr5_ = nu",
    "cnd_ = 1 > 0\nif cnd_:\n    qa_ = qubit()\n    qb_ = qubit()\nr6_ = 1",
    "qa_ = qubit()\nqb_ = qubit()\nqc_ = qubit()",
    "qa_ = qubit()\nqb_ = qubit()\ndiscard(qa_)\ndiscard(qb_)\nh(qa_)\nh(qb_)",
    "xs_ = array(1, 2)\nxs_[0 if True else 1] = 1",
    "xs_ = array(1, 2)\nxs_[0 if xs_[0] > 0 else 1] += 1",
    "xs_ = array(1, 2)\nxs_[(w_ := 0)] = 1",
    "xs_ = array(1, 2)\nxs_[0 and 1] = 1",
    "q_leak = qubit()",
    "q2 = qubit()\ndiscard(q2)\ndiscard(q2)",
    "q3 = qubit()\nq4 = q3\nh(q3)\ndiscard(q4)",
    "q5 = qubit()\nif True:\n    discard(q5)",
    "q6 = qubit()\nwhile False:\n    discard(q6)\ndiscard(q6)",
    "qs = array(qubit(), qubit())\nqa = qs[0]",
    "qs2 = array(qubit(), qubit())\ncx(qs2[0], qs2[0])",
    "try:\n    pass\nexcept Exception:\n    pass",
    "try:\n    pass\nfinally:\n    pass",
    "global GG",
    "nonlocal_dummy = 1\ndel nonlocal_dummy",
    "yield 1",
    "yield from range(2)",
    "assert True",
    "assert False, 'm'",
    "raise ValueError()",
    "import math",
    "from math import pi",
    "class Inner:\n    pass",
    "with open('x') as fh:\n    pass",
    "with control(1):\n    pass",
    "with dagger:\n    pass",
    "match 1:\n    case 1:\n        pass",
    "zz_undefined += 1",
    "aa = bb = 1",
    "cc: int",
    "dd: int = 1.5",
    "ee: Foo = 1",
    "a_, b_ = (1, 2, 3)",
    "a_, *b_ = 1",
    "a_, *b_, *c_ = array(1, 2, 3)",
    "(a_, b_), c_ = (1, 2)",
    "[a_, b_] = array(1, 2, 3)",
    "t_ = (1, 2)\nt_[0] = 3",
    "p_ = P(1, True)\np_.a = 2",
    "p_ = P(1, True)\np_.zzz = 2",
    "x_ = 1\nx_.foo = 2",
    "x_ = 1\nx_[0] = 2",
    "xs_ = array(1, 2)\nxs_[0] = True",
    "xs_ = array(1, 2)\nxs_['a'] = 1",
    "xs_ = array(1, 2)\nxs_[0:1] = 1",
    "for i_ in 5:\n    pass",
    "for a_, b_ in range(3):\n    pass",
    "for i_ in range(3):\n    pass\nelse:\n    pass",
    "while True:\n    pass\nelse:\n    pass",
    "while 'a':\n    break",
    "if (1, 2):\n    pass",
    "if P(1, True):\n    pass",
    "if qubit():\n    pass",
    "def inner_(a: int = 5) -> int:\n    return a",
    "def inner_(*a: int) -> int:\n    return 1",
    "def inner_(a) -> int:\n    return 1",
    "def inner_(a: int):\n    return a",
    "def inner_(a: int) -> int:\n    return inner_missing(a)",
    "def inner_() -> int:\n    return later_\nlater_ = 1",
    "def inner_(a: int) -> int:\n    return a\ninner_(1, 2)",
    "def inner_(a: int) -> int:\n    return a\ninner_()",
    "def inner_(a: int) -> int:\n    return a\ninner_(a=1)",
    "def inner_(a: int) -> int:\n    return a\ninner_(*(1,))",
    "def inner_(a: int) -> int:\n    return a\ninner_ = 1\ninner_(1)",
    "def inner_(a: Foo) -> int:\n    return 1",
    "def inner_(q: qubit @ owned) -> None:\n    pass",
    "def inner_(q: qubit) -> qubit:\n    return q",
    "async def inner_() -> None:\n    pass",
    "@staticmethod\ndef inner_() -> None:\n    pass",
    "lam_ = lambda: 1",
    "result(1, 2)",
    "result('t')",
    "result('t', (1, 2))",
    "result('t', P(1, True))",
    "result('t' * 300, 1)",
    "result('t', qubit())",
    "rtag_ = 't'\nresult(rtag_, 1)",
    "print('x')",
    "return",
    "return 1, 2, 3",
    "return undefined_ret",
    "pass",
    "1 + 1",
    "'docstring'",
    "x_: int = 1\nx_: bool = True\ny_ = x_ + 1",
    "if True:\n    x_ = 1\nelse:\n    x_ = 1.5\ny_ = x_",
    "k_ = 0\nwhile k_ < 2:\n    k_ = k_ + 0.5",
    "s_ = 'a'\nfor ch_ in s_:\n    pass",
    "n_ = None\nm_ = n_ + 1",
    "o_ = nothing()\n",
    "o_: Option[int] = nothing()\no_.unwrap()",
    "o_ = some(1)\nif o_.is_some():\n    pass",
    "f_ = main",
    "f_ = main\nf_()",
]


class _Collector(ast.NodeVisitor):
    def __init__(self):
        self.nodes = []

    def generic_visit(self, node):
        self.nodes.append(node)
        super().generic_visit(node)


def _parse_stmts(text):
    return ast.parse(text).body


def _parse_expr(text):
    return ast.parse(text, mode="eval").body


def guppy_functions(tree):
    out = []
    for n in tree.body:
        if isinstance(n, ast.FunctionDef) and any(
                (isinstance(d, ast.Name) and d.id == "guppy") for d in n.decorator_list):
            out.append(n)
    return out


def _bodies(fn):
    """all statement lists inside fn (for inserting / deleting statements)"""
    out = []
    for n in ast.walk(fn):
        for fld in ("body", "orelse", "finalbody"):
            b = getattr(n, fld, None)
            if isinstance(b, list) and b and isinstance(b[0], ast.stmt):
                out.append(b)
    return out


def apply_one(draw, tree):
    """apply one drawn mutation in place; returns a label"""
    fns = guppy_functions(tree)
    if not fns:
        return "none"
    fn = fns[draw(st.integers(0, len(fns) - 1))]
    kind = draw(st.sampled_from([
        "annotation", "wrap_expr", "wrap_expr", "wrap_expr", "wrap_stmt", "drop_stmt", "dup_stmt", "rename", "rename", "call_arity", "insert_stmt",
        "insert_stmt", "insert_stmt", "replace_expr", "replace_expr", "replace_expr", "wrong_return", "unreachable",
        "swap_stmts", "const", "cond_nonbool", "binop_operand", "shadow_param", "compare_op", "sig_arity",
        "unpack_mismatch", "early_return", "struct_field", "call_to_method", "body_docstring"]))
    nodes = [n for n in ast.walk(fn)]

    def pick(xs):
        return xs[draw(st.integers(0, len(xs) - 1))] if xs else None

    if kind == "annotation":
        cands = [a for a in fn.args.args if a.annotation is not None]
        cands += [n for n in nodes if isinstance(n, ast.AnnAssign)]
        cands.append(fn)
        c = pick(cands)
        new = _parse_expr(draw(st.sampled_from(TYPE_NAMES)))
        if isinstance(c, ast.FunctionDef):
            c.returns = new
        else:
            c.annotation = new
        return kind
    if kind in ("drop_stmt", "dup_stmt", "swap_stmts", "insert_stmt", "unreachable", "early_return"):
        bodies = _bodies(fn)
        b = pick(bodies)
        i = draw(st.integers(0, len(b) - 1))
        if kind == "drop_stmt":
            b[i] = ast.Pass()
        elif kind == "dup_stmt":
            b.insert(i, copy.deepcopy(b[i]))
        elif kind == "swap_stmts" and len(b) >= 2:
            j = draw(st.integers(0, len(b) - 1))
            b[i], b[j] = b[j], b[i]
        elif kind == "insert_stmt":
            snippet = draw(st.sampled_from(STMT_SNIPPETS))
            r_ = draw(st.integers(0, 5))
            if r_ == 0:
                snippet = "ps_ = " + fill_params(draw, draw(st.sampled_from(PARAM_SNIPPETS)))
            elif r_ == 1:
                snippet = "pa_: int = " + fill_params(draw, draw(st.sampled_from(PARAM_SNIPPETS)))
            for k, s_ in enumerate(_parse_stmts(snippet)):
                b.insert(i + k, s_)
            return kind + ":" + snippet.split("\n")[0][:30]
        elif kind == "unreachable":
            b[i] = ast.If(test=ast.Constant(False), body=[b[i]], orelse=[])
        elif kind == "early_return":
            b.insert(i, ast.Return(value=_parse_expr(draw(st.sampled_from(["1", "True", "1.5", "(1, 2)", "None", "P(1, True)"])))))
        return kind
    if kind == "wrap_expr":
        parents = []
        for p in nodes:
            for fld, val in ast.iter_fields(p):
                if fld in ("annotation", "returns", "decorator_list", "targets", "target", "args") and not isinstance(p, ast.Call):
                    continue
                if isinstance(val, ast.expr) and not isinstance(getattr(val, "ctx", None), (ast.Store, ast.Del)):
                    parents.append((p, fld, None))
                elif isinstance(val, list):
                    for idx, v in enumerate(val):
                        if isinstance(v, ast.expr) and not isinstance(getattr(v, "ctx", None), (ast.Store, ast.Del)):
                            parents.append((p, fld, idx))
        tgt = pick(parents)
        w = draw(st.sampled_from(WRAPS))
        if tgt is not None:
            p, fld, idx = tgt
            old = getattr(p, fld) if idx is None else getattr(p, fld)[idx]
            try:
                new = _parse_expr(w.replace("{e}", "(" + ast.unparse(old) + ")"))
            except (SyntaxError, ValueError):
                return "none"
            if idx is None:
                setattr(p, fld, new)
            else:
                getattr(p, fld)[idx] = new
        return kind + ":" + w
    if kind == "wrap_stmt":
        bodies = _bodies(fn)
        b = pick(bodies)
        i = draw(st.integers(0, len(b) - 1))
        w = draw(st.sampled_from(STMT_WRAPS))
        inner = ast.unparse(b[i]).replace("\n", "\n    ")
        try:
            new = _parse_stmts(w.replace("BODY", inner))
        except SyntaxError:
            return "none"
        b[i:i + 1] = new
        return kind + ":" + w.split("\n")[0]
    if kind == "body_docstring":
        # the whole body becomes a docstring (optionally followed by pass / ... / a bare constant)
        tail = draw(st.sampled_from(["", "pass", "...", "1", "return"]))
        fn.body = [ast.Expr(ast.Constant("only a docstring"))] + (_parse_stmts(tail) if tail else [])
        return kind
    if kind == "rename":
        names = [n for n in nodes if isinstance(n, ast.Name) and isinstance(n.ctx, ast.Load)]
        n = pick(names)
        if n is not None:
            others = sorted({m.id for m in nodes if isinstance(m, ast.Name)}) + ["undefined_xyz", "main", "P", "int", "result"]
            n.id = pick(others)
        return kind
    if kind == "call_arity":
        calls = [n for n in nodes if isinstance(n, ast.Call)]
        c = pick(calls)
        if c is not None:
            r = draw(st.integers(0, 3))
            if r == 0 and c.args:
                c.args.pop()
            elif r == 1:
                c.args.append(ast.Constant(1))
            elif r == 2:
                c.keywords.append(ast.keyword(arg="kw", value=ast.Constant(1)))
            else:
                c.args.append(ast.Starred(value=_parse_expr("(1, 2)"), ctx=ast.Load()))
        return kind
    if kind == "replace_expr":
        exprs = [n for n in nodes if isinstance(n, ast.expr) and not isinstance(n, (ast.Name, ast.Constant))
                 or (isinstance(n, ast.Name) and isinstance(n.ctx, ast.Load)) or isinstance(n, ast.Constant)]
        # replace through the parent to keep the tree consistent
        parents = []
        for p in nodes:
            for fld, val in ast.iter_fields(p):
                if isinstance(val, ast.expr) and not isinstance(getattr(val, "ctx", None), (ast.Store, ast.Del)) and fld not in ("annotation", "returns"):
                    parents.append((p, fld, None))
                elif isinstance(val, list):
                    for idx, v in enumerate(val):
                        if isinstance(v, ast.expr) and not isinstance(getattr(v, "ctx", None), (ast.Store, ast.Del)) and fld not in ("decorator_list", "targets"):
                            parents.append((p, fld, idx))
        tgt = pick(parents)
        snippet = draw(st.sampled_from(EXPR_SNIPPETS))
        if draw(st.integers(0, 3)) == 0:
            snippet = fill_params(draw, draw(st.sampled_from(PARAM_SNIPPETS)))
        if tgt is not None:
            p, fld, idx = tgt
            try:
                new = _parse_expr(snippet)
            except SyntaxError:
                return "none"
            if idx is None:
                setattr(p, fld, new)
            else:
                getattr(p, fld)[idx] = new
        return kind + ":" + snippet[:30]
    if kind == "wrong_return":
        rets = [n for n in nodes if isinstance(n, ast.Return)]
        r = pick(rets)
        if r is not None:
            r.value = pick([None, ast.Constant(1.5), ast.Constant(None), _parse_expr("(1, 2)"), ast.Constant("s"),
                            _parse_expr("qubit()"), ast.Constant(True), _parse_expr("array(1)")])
        return kind
    if kind == "const":
        cs = [n for n in nodes if isinstance(n, ast.Constant)]
        c = pick(cs)
        if c is not None:
            c.value = pick([2 ** 70, -(2 ** 63) - 1, "s", None, 1.5, True, b"x", ..., 2 ** 63, 2 ** 64])
        return kind
    if kind == "cond_nonbool":
        cs = [n for n in nodes if isinstance(n, (ast.If, ast.While, ast.IfExp))]
        c = pick(cs)
        if c is not None:
            c.test = _parse_expr(draw(st.sampled_from(["1", "1.5", "(1, 2)", "'a'", "None", "P(1, True)", "qubit()",
                                                       "array(1, 2)", "undefined_c", "1 < 2 < 'a'"])))
        return kind
    if kind == "binop_operand":
        bs = [n for n in nodes if isinstance(n, (ast.BinOp, ast.Compare, ast.BoolOp, ast.UnaryOp))]
        b = pick(bs)
        new = _parse_expr(draw(st.sampled_from(["True", "1.5", "'a'", "None", "(1, 2)", "P(1, True)", "qubit()",
                                                "array(1, 2)", "nat(1)", "2 ** 70"])))
        if isinstance(b, ast.BinOp):
            if draw(st.booleans()):
                b.left = new
            else:
                b.right = new
            if draw(st.integers(0, 3)) == 0:
                b.op = pick([ast.MatMult(), ast.Pow(), ast.Div(), ast.LShift(), ast.FloorDiv(), ast.Mod()])
        elif isinstance(b, ast.Compare):
            b.left = new
        elif isinstance(b, ast.BoolOp):
            b.values[0] = new
        elif isinstance(b, ast.UnaryOp):
            b.operand = new
        return kind
    if kind == "shadow_param":
        if fn.args.args:
            a = pick(fn.args.args)
            fn.body.insert(0, ast.Assign(targets=[ast.Name(a.arg, ast.Store())],
                                         value=_parse_expr(draw(st.sampled_from(["'s'", "1.5", "True", "qubit()", "(1, 2)", "None"]))),
                                         lineno=0))
        return kind
    if kind == "compare_op":
        cs = [n for n in nodes if isinstance(n, ast.Compare)]
        c = pick(cs)
        if c is not None:
            c.ops[0] = pick([ast.Is(), ast.IsNot(), ast.In(), ast.NotIn()])
        return kind
    if kind == "sig_arity":
        r = draw(st.integers(0, 4))
        if r == 0 and fn.args.args:
            fn.args.args.pop()
        elif r == 1:
            fn.args.args.append(ast.arg("extra_", annotation=_parse_expr(draw(st.sampled_from(TYPE_NAMES)))))
        elif r == 2:
            fn.args.args.append(ast.arg("extra_", annotation=None))
        elif r == 3:
            fn.args.vararg = ast.arg("va_", annotation=_parse_expr("int"))
        else:
            fn.args.kwonlyargs.append(ast.arg("ko_", annotation=_parse_expr("int")))
            fn.args.kw_defaults.append(None)
        return kind
    if kind == "unpack_mismatch":
        asg = [n for n in nodes if isinstance(n, ast.Assign) and isinstance(n.targets[0], ast.Tuple)]
        a = pick(asg)
        if a is not None:
            t = a.targets[0]
            if draw(st.booleans()) and len(t.elts) > 1:
                t.elts.pop()
            else:
                t.elts.append(ast.Name("extra_u", ast.Store()))
        return kind
    if kind == "struct_field":
        attrs = [n for n in nodes if isinstance(n, ast.Attribute)]
        a = pick(attrs)
        if a is not None:
            a.attr = pick(["zzz", "a", "t", "__class__", "copy"])
        return kind
    if kind == "call_to_method":
        calls = [n for n in nodes if isinstance(n, ast.Call) and isinstance(n.func, ast.Name)]
        c = pick(calls)
        if c is not None:
            c.func = ast.Attribute(value=ast.Name(c.func.id, ast.Load()), attr=pick(["foo", "copy", "__call__"]), ctx=ast.Load())
        return kind
    return "none"


def mutate(draw, src, n_mut):
    """-> (new_src, [labels]) ; new_src always compiles as Python"""
    tree = ast.parse(src)
    labels = []
    for _ in range(n_mut):
        backup = copy.deepcopy(tree)
        try:
            lab = apply_one(draw, tree)
            ast.fix_missing_locations(tree)
            out = ast.unparse(tree)
            compile(out, "<mut>", "exec")
            labels.append(lab)
        except (SyntaxError, ValueError, TypeError, AttributeError, IndexError, RecursionError):
            tree = backup
            labels.append("dropped")
    ast.fix_missing_locations(tree)
    return ast.unparse(tree) + "\n", labels
