"""GenPlaces - linear programs over *nested* places (C01): a struct three levels deep
(`Outer{mid: Mid{inner: Inner{q}, k}, r}`), a tuple of structs and plain qubits, manipulated by a
statement sequence that is valid by construction: a forward generator tracks which qubit leaves
are live and only emits whole / partial consumption, borrowing, re-assignment of a leaf, of an
intermediate struct or of the root, moves through temporaries, and `if` / `while` regions whose
branches agree on the final state.  At the end every dead leaf is refilled and the value is
returned whole, so the packing / unpacking caches of every nesting level are exercised.
The callees are declared only: the programs are compiled and validated, not run."""
from __future__ import annotations

from hypothesis import strategies as st

HEADER = '''
@guppy.struct
class Inner:
    q: qubit

@guppy.struct
class Mid:
    inner: Inner
    k: int

@guppy.struct
class Outer:
    mid: Mid
    r: qubit

@guppy.declare
def eat_q(q: qubit @owned) -> None: ...

@guppy.declare
def eat_inner(x: Inner @owned) -> None: ...

@guppy.declare
def eat_mid(x: Mid @owned) -> None: ...

@guppy.declare
def eat_outer(x: Outer @owned) -> None: ...

@guppy.declare
def eat_pair(x: tuple[Inner, qubit] @owned) -> None: ...

@guppy.declare
def peek_q(q: qubit) -> None: ...

@guppy.declare
def peek_inner(x: Inner) -> None: ...

@guppy.declare
def peek_mid(x: Mid) -> None: ...

@guppy.declare
def peek_outer(x: Outer) -> None: ...

@guppy.declare
def peek_pair(x: tuple[Inner, qubit]) -> None: ...
'''

# place -> (type, child places)
def tree(root, ty):
    """-> {place text: (type, [children])} for a variable `root` of type `ty`"""
    out = {}

    def go(p, t):
        if t == "Outer":
            ch = [(p + ".mid", "Mid"), (p + ".r", "Q")]
        elif t == "Mid":
            ch = [(p + ".inner", "Inner")]
        elif t == "Inner":
            ch = [(p + ".q", "Q")]
        else:
            ch = []
        out[p] = (t, [c for c, _ in ch])
        for c, ct in ch:
            go(c, ct)

    go(root, ty)
    return out


FRESH = {"Q": "qubit()", "Inner": "Inner(qubit())", "Mid": "Mid(Inner(qubit()), {k})", "Outer": "Outer(Mid(Inner(qubit()), {k}), qubit())"}
EAT = {"Q": "eat_q", "Inner": "eat_inner", "Mid": "eat_mid", "Outer": "eat_outer"}
PEEK = {"Q": "peek_q", "Inner": "peek_inner", "Mid": "peek_mid", "Outer": "peek_outer"}


class Gen:
    def __init__(self, draw, root_ty):
        self.draw = draw
        self.places = tree("o", root_ty)
        self.leaves = [p for p, (t, ch) in self.places.items() if t == "Q"]
        self.live = {lf: True for lf in self.leaves}
        self.tmp = 0
        self.labels = set()

    def under(self, p):
        return [lf for lf in self.leaves if lf == p or lf.startswith(p + ".")]

    def pick(self, xs):
        return xs[self.draw(st.integers(0, len(xs) - 1))]

    def op(self, depth):
        """-> list of lines (state updated)"""
        d = self.draw
        all_live = [p for p in self.places if all(self.live[lf] for lf in self.under(p))]
        all_dead = [p for p in self.places if not any(self.live[lf] for lf in self.under(p))]
        kinds = []
        if all_live:
            kinds += ["eat", "peek", "peek", "move"]
        if all_dead:
            kinds += ["fill", "fill"]
        if depth < 2:
            kinds += ["if", "while"]
        k = self.pick(kinds)
        self.labels.add("op:" + k)
        if k == "eat":
            p = self.pick(all_live)
            for lf in self.under(p):
                self.live[lf] = False
            self.labels.add(f"eat:depth{p.count('.')}")
            return [f"{EAT[self.places[p][0]]}({p})"]
        if k == "peek":
            p = self.pick(all_live)
            return [f"{PEEK[self.places[p][0]]}({p})"]
        if k == "fill":
            p = self.pick(all_dead)
            for lf in self.under(p):
                self.live[lf] = True
            self.labels.add(f"fill:depth{p.count('.')}")
            return [f"{p} = " + FRESH[self.places[p][0]].format(k=d(st.integers(0, 9)))]
        if k == "move":
            p = self.pick(all_live)
            self.tmp += 1
            t = f"t{self.tmp}"
            lines = [f"{t} = {p}"]
            if d(st.booleans()):
                lines.append(f"{PEEK[self.places[p][0]]}({t})")
            lines.append(f"{p} = {t}")
            self.labels.add(f"move:depth{p.count('.')}")
            return lines
        if k == "if":
            # both branches end in the same state: the else-branch replays the effect on the state
            before = dict(self.live)
            body = self.block(depth + 1, d(st.integers(1, 3)))
            after = dict(self.live)
            other = self.reach(before, after)
            return ["if c:"] + ["    " + ln for ln in body] + (["else:"] + ["    " + ln for ln in other] if other else [])
        # while: the body restores the state it started from
        before = dict(self.live)
        body = self.block(depth + 1, d(st.integers(1, 3)))
        body += self.reach(dict(self.live), before)
        self.live = dict(before)
        return ["while c:"] + ["    " + ln for ln in body] + ["    c = False"]

    def reach(self, frm, to):
        """statements leading from state `frm` to state `to` (leaf by leaf)"""
        lines = []
        for lf in self.leaves:
            if frm[lf] and not to[lf]:
                lines.append(f"eat_q({lf})")
            elif not frm[lf] and to[lf]:
                lines.append(f"{lf} = qubit()")
        self.live = dict(to)
        return lines

    def block(self, depth, n):
        lines = []
        for _ in range(n):
            lines += self.op(depth)
        return lines


@st.composite
def programs(draw):
    root_ty = draw(st.sampled_from(["Outer", "Outer", "Mid"]))
    g = Gen(draw, root_ty)
    lines = g.block(0, draw(st.integers(2, 7)))
    lines += g.reach(dict(g.live), {lf: True for lf in g.leaves})
    ending = draw(st.integers(0, 2))
    if ending == 0:
        ret, tail = root_ty, ["return o"]
    elif ending == 1:
        ret, tail = "None", [f"{EAT[root_ty]}(o)"]
    else:
        ret, tail = "qubit", ["q9 = o" + (".mid.inner.q" if root_ty == "Outer" else ".inner.q")] + (["eat_q(o.r)"] if root_ty == "Outer" else []) + ["return q9"]
    src = f"@guppy\ndef f(o: {root_ty} @owned, c: bool) -> {ret}:\n" + "".join("    " + ln + "\n" for ln in lines + tail)
    deep = any(l.startswith(("eat:depth0", "eat:depth1")) for l in g.labels) and any(l.startswith(("fill:depth2", "fill:depth3", "fill:depth1")) for l in g.labels)
    return {"src": HEADER + "\n" + src, "entry": "f", "labels": sorted(g.labels), "nontrivial": deep}
