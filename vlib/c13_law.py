"""C13 law level: partial/full instantiation of generic function types vs an independent
de-Bruijn substitution on plain mirror terms.

Mirror terms (plain tuples, JSON-able after `jt`/`tt`):
  types   ("int",) ("nat",) ("float",) ("bool",) ("none",)
          ("tup", (t, ...))            ("arr", t, c)           ("fn", ((flag, t), ...), t)
          ("SA", t, c)  struct SA[T, n]   ("SB", c) struct SB[B: bool]   ("SD", t, c) struct SD[T, x: T]
          ("tv", idx, name, copy, drop)   bound type variable
          ("ev", id, name, copy, drop)    existential type variable (only in full instantiations)
  consts  ("c", tyname, value)            constant value (closed type: nat/int/bool/float or a tuple)
          ("cv", idx, name, t)            bound const variable of type t
          ("ecv", id, name)               existential nat const variable
  args    ("T", t) | ("C", c)
  params  ("tp", name, copy, drop) | ("cp", name, t, from_comptime)

The substitution `msub` below is written from the textbook definition: parameter i of a binder
with partial instantiation `inst` is replaced by inst[i] if given, otherwise it becomes the
variable with index  #{j < i : inst[j] is None};  nothing in it comes from tys/subst.py.
"""
from __future__ import annotations

FLAGS = ("", "o", "b", "c")  # none / owned / inout / comptime


def tt(x):
    """lists -> tuples (after JSON)"""
    if isinstance(x, list):
        return tuple(tt(y) for y in x)
    return x


def jt(x):
    if isinstance(x, tuple):
        return [jt(y) for y in x]
    return x


# ------------------------------------------------------------------ reference substitution
def new_index(inst, i):
    return sum(1 for a in inst[:i] if a is None)


def msub(t, inst):
    """Substitute the binder's parameters in mirror type/const `t`."""
    h = t[0]
    if h in ("int", "nat", "float", "bool", "none", "ev", "ecv", "c"):
        return t
    if h == "tv":
        a = inst[t[1]]
        if a is None:
            return ("tv", new_index(inst, t[1]), t[2], t[3], t[4])
        assert a[0] == "T", (t, a)
        return a[1]
    if h == "cv":
        a = inst[t[1]]
        if a is None:
            return ("cv", new_index(inst, t[1]), t[2], msub(t[3], inst))
        assert a[0] == "C", (t, a)
        return a[1]
    if h == "tup":
        return ("tup", tuple(msub(x, inst) for x in t[1]))
    if h == "arr":
        return ("arr", msub(t[1], inst), msub(t[2], inst))
    if h == "fn":
        return ("fn", tuple((f, msub(x, inst)) for f, x in t[1]), msub(t[2], inst))
    if h in ("SA", "SD"):
        return (h, msub(t[1], inst), msub(t[2], inst))
    if h == "SB":
        return ("SB", msub(t[1], inst))
    raise ValueError(t)


def remaining_params(params, inst):
    out = []
    for i, (p, a) in enumerate(zip(params, inst)):
        if a is not None:
            continue
        if p[0] == "tp":
            out.append(p)
        else:
            out.append(("cp", p[1], msub(p[2], inst), p[3]))
    return out


def compose(inst1, inst2):
    """inst2 instantiates the parameters that inst1 left open (in order)."""
    it = iter(inst2)
    out = [a if a is not None else next(it) for a in inst1]
    assert next(it, "end") == "end"
    return out


def children(t):
    """direct sub-terms of a mirror type/const"""
    h = t[0]
    if h == "tup":
        return list(t[1])
    if h in ("arr", "SA", "SD"):
        return [t[1], t[2]]
    if h == "SB":
        return [t[1]]
    if h == "fn":
        return [x for _, x in t[1]] + [t[2]]
    if h == "cv":
        return [t[3]]
    return []


def var_depths(t, d=0):
    """[(param index, depth)] of all bound-variable occurrences"""
    out = [(t[1], d)] if t[0] in ("tv", "cv") else []
    for c in children(t):
        out += var_depths(c, d + 1)
    return out


def heads(t):
    out = {t[0]}
    for c in children(t):
        out |= heads(c)
    return out


# ------------------------------------------------------------------ world: mirror <-> /repo objects
class World:
    _inst = None

    STRUCT_SRC = '''
from guppylang import guppy
from guppylang.std.builtins import array, nat
from typing import Generic

_T = guppy.type_var("_T", copyable=False, droppable=False)
_n = guppy.nat_var("_n")
_B = guppy.const_var("_B", "bool")

@guppy.struct
class SA(Generic[_T, _n]):
    x: _T
    y: array[int, _n]

@guppy.struct
class SB(Generic[_B]):
    z: int

@guppy.struct
class SD[_U: (Copy, Drop), _x: _U]:
    w: int
'''

    @classmethod
    def get(cls):
        if cls._inst is None:
            cls._inst = cls()
        return cls._inst

    def __init__(self):
        from guppylang_internals.engine import ENGINE
        from guppylang_internals.tys import arg, builtin, const, param, subst, ty

        from vlib import runner

        self.ty, self.arg, self.const, self.builtin, self.param, self.subst = ty, arg, const, builtin, param, subst
        self.lm = runner.load_module(self.STRUCT_SRC.replace("from typing import Generic",
                                                             "from typing import Generic\nfrom guppylang.std.lang import Copy, Drop"))
        self.defs = {n: ENGINE.get_checked(getattr(self.lm.mod, n).id) for n in ("SA", "SB", "SD")}
        self.def_rev = {id(v): k for k, v in self.defs.items()}
        F = ty.InputFlags
        self.flag = {"": F.NoFlags, "o": F.Owned, "b": F.Inout, "c": F.Comptime}
        self.flag_rev = {v: k for k, v in self.flag.items()}

    # ---- mirror -> real
    def R(self, t):
        ty, arg, const, b = self.ty, self.arg, self.const, self.builtin
        h = t[0]
        R = self.R
        if h == "int":
            return b.int_type()
        if h == "nat":
            return b.nat_type()
        if h == "float":
            return b.float_type()
        if h == "bool":
            return b.bool_type()
        if h == "none":
            return ty.NoneType()
        if h == "tv":
            return ty.BoundTypeVar(display_name=t[2], idx=t[1], copyable=t[3], droppable=t[4])
        if h == "ev":
            return ty.ExistentialTypeVar(display_name=t[2], id=t[1], copyable=t[3], droppable=t[4])
        if h == "c":
            return const.ConstValue(ty=R(t[1]), value=self.value(t[2]))
        if h == "cv":
            return const.BoundConstVar(ty=R(t[3]), display_name=t[2], idx=t[1])
        if h == "ecv":
            return const.ExistentialConstVar(ty=b.nat_type(), display_name=t[2], id=t[1])
        if h == "tup":
            return ty.TupleType([R(x) for x in t[1]])
        if h == "arr":
            return b.array_type(R(t[1]), R(t[2]))
        if h == "fn":
            return ty.FunctionType([ty.FuncInput(R(x), self.flag[f]) for f, x in t[1]], R(t[2]))
        if h == "SA":
            return ty.StructType([arg.TypeArg(R(t[1])), arg.ConstArg(R(t[2]))], self.defs["SA"])
        if h == "SD":
            return ty.StructType([arg.TypeArg(R(t[1])), arg.ConstArg(R(t[2]))], self.defs["SD"])
        if h == "SB":
            return ty.StructType([arg.ConstArg(R(t[1]))], self.defs["SB"])
        raise ValueError(t)

    @staticmethod
    def value(v):
        return tuple(World.value(x) for x in v) if isinstance(v, (tuple, list)) else v

    def RA(self, a):
        if a is None:
            return None
        return self.arg.TypeArg(self.R(a[1])) if a[0] == "T" else self.arg.ConstArg(self.R(a[1]))

    def RP(self, i, p):
        if p[0] == "tp":
            return self.param.TypeParam(i, p[1], p[2], p[3])
        return self.param.ConstParam(i, p[1], self.R(p[2]), from_comptime_arg=p[3])

    # ---- real -> mirror (reads fields only)
    def M(self, x):
        ty, const, b = self.ty, self.const, self.builtin
        M = self.M

        def a(g):
            return M(g.ty) if isinstance(g, self.arg.TypeArg) else M(g.const)

        if isinstance(x, ty.NumericType):
            return (x.kind.name.lower(),)
        if isinstance(x, ty.NoneType):
            return ("none",)
        if isinstance(x, ty.ExistentialTypeVar):
            return ("ev", x.id, x.display_name, x.copyable, x.droppable)
        if isinstance(x, ty.BoundTypeVar):
            return ("tv", x.idx, x.display_name, x.copyable, x.droppable)
        if isinstance(x, const.ExistentialConstVar):
            return ("ecv", x.id, x.display_name)
        if isinstance(x, const.BoundConstVar):
            return ("cv", x.idx, x.display_name, M(x.ty))
        if isinstance(x, const.ConstValue):
            return ("c", M(x.ty), x.value)
        if isinstance(x, ty.TupleType):
            return ("tup", tuple(M(e) for e in x.element_types))
        if isinstance(x, ty.FunctionType):
            if x.params or x.comptime_args:
                return ("fn!", len(x.params), len(x.comptime_args))
            return ("fn", tuple((self.flag_rev.get(i.flags, str(i.flags)), M(i.ty)) for i in x.inputs), M(x.output))
        if isinstance(x, ty.StructType):
            n = self.def_rev[id(x.defn)]
            return (n, *(a(g) for g in x.args))
        if isinstance(x, ty.OpaqueType):
            if x.defn is b.bool_type_def:
                return ("bool",)
            if x.defn is b.array_type_def:
                return ("arr", a(x.args[0]), a(x.args[1]))
        raise ValueError(f"no mirror for {x!r}")

    def MP(self, p):
        if isinstance(p, self.param.TypeParam):
            return ("tp", p.name, p.must_be_copyable, p.must_be_droppable)
        return ("cp", p.name, self.M(p.ty), p.from_comptime_arg)

    def MF(self, f):
        """mirror of a top-level function type: (params+idx, inputs, output, comptime args)"""
        return {
            "params": [self.MP(p) for p in f.params],
            "idx": [p.idx for p in f.params],
            "inputs": [(self.flag_rev.get(i.flags, str(i.flags)), i.name, self.M(i.ty)) for i in f.inputs],
            "output": self.M(f.output),
            "comptime": [self.M(c.const) for c in f.comptime_args],
        }


def comptime_of(params):
    """a fresh function type's comptime arguments: the variables of its comptime parameters"""
    return [("cv", i, p[1], p[2]) for i, p in enumerate(params) if p[0] == "cp" and p[3]]


def expected(params, inputs, output, inst, comptime):
    """mirror of instantiate_partial(inst) per the reference substitution"""
    rem = remaining_params(params, inst)
    return {
        "params": rem,
        "idx": list(range(len(rem))),
        "inputs": [(f, n, msub(t, inst)) for f, n, t in inputs],
        "output": msub(output, inst),
        "comptime": [msub(c, inst) for c in comptime],
    }


def strip_cv_types(x):
    """erase the type annotation carried by bound const variable *occurrences*"""
    if isinstance(x, tuple):
        if x and x[0] == "cv":
            return ("cv", x[1], x[2])
        return tuple(strip_cv_types(y) for y in x)
    if isinstance(x, list):
        return [strip_cv_types(y) for y in x]
    if isinstance(x, dict):
        return {k: (v if k == "params" else strip_cv_types(v)) for k, v in x.items()}
    return x


def first_diff(a, b, path=""):
    if type(a) is not type(b) and not (isinstance(a, (list, tuple)) and isinstance(b, (list, tuple))):
        return f"{path}: {a!r} != {b!r}"
    if isinstance(a, dict):
        for k in a:
            d = first_diff(a[k], b.get(k), f"{path}.{k}")
            if d:
                return d
        return None
    if isinstance(a, (list, tuple)):
        if len(a) != len(b):
            return f"{path}: length {len(a)} != {len(b)}: {a!r} != {b!r}"
        for i, (x, y) in enumerate(zip(a, b)):
            d = first_diff(x, y, f"{path}[{i}]")
            if d:
                return d
        return None
    return None if a == b else f"{path}: {a!r} != {b!r}"


def diff_component(d):
    """stable component name out of a first_diff path"""
    if d is None:
        return None
    p = d.split(":")[0]
    for k in ("params", "idx", "inputs", "output", "comptime"):
        if p.startswith("." + k):
            return k
    return "other"


def evaluate(case, strict_cv_types=False, check_flag=True):
    """case = {params, inputs, output, steps: [partial inst, ..., full inst]}  (mirror terms)
    -> None or (bucket, detail)"""
    W = World.get()
    params = [tt(p) for p in case["params"]]
    inputs = [(f, n, tt(t)) for f, n, t in case["inputs"]]
    output = tt(case["output"])
    steps = [[None if a is None else tt(a) for a in s] for s in case["steps"]]
    try:
        F = W.ty.FunctionType([W.ty.FuncInput(W.R(t), W.flag[f], n) for f, n, t in inputs], W.R(output),
                              [W.RP(i, p) for i, p in enumerate(params)])
    except Exception as e:  # noqa: BLE001
        return ("harness.build", f"could not build the function type: {e!r}")

    # --- the chain of partial steps, each compared with the reference
    cur, cur_params, cur_inputs, cur_output, cur_ct = F, params, inputs, output, comptime_of(params)
    total = [None] * len(params)  # composite instantiation in terms of the original binder
    for k, inst in enumerate(steps):
        last = k == len(steps) - 1
        try:
            real_inst = [W.RA(a) for a in inst]
            nxt = cur.instantiate(real_inst) if last else cur.instantiate_partial(real_inst)
        except Exception as e:  # noqa: BLE001
            import traceback

            fr = [f for f in traceback.extract_tb(e.__traceback__) if "guppylang" in f.filename]
            where = f"{fr[-1].filename.split('/')[-1]}:{fr[-1].name}" if fr else "?"
            return (f"law.raises.{type(e).__name__}@{where}", f"step {k} {inst}: {e!r}")
        exp = expected(cur_params, cur_inputs, cur_output, inst, cur_ct)
        try:
            got = W.MF(nxt)
        except ValueError as e:
            return ("law.shape", f"step {k}: {e}")
        cmp_exp = exp
        if not check_flag:
            if [p[3] for p in got["params"] if p[0] == "cp"] != [p[3] for p in exp["params"] if p[0] == "cp"]:
                case.setdefault("_notes", []).append("flag_dropped")
            cmp_exp = dict(exp, params=[p[:3] if p[0] == "cp" else p for p in exp["params"]])
            got["params"] = [p[:3] if p[0] == "cp" else p for p in got["params"]]
        d = first_diff(got, cmp_exp)
        if d and not strict_cv_types:
            # a stale type annotation on occurrences of a remaining const variable (see the
            # module docstring of checks/c13.py) is only noted: compare with those erased
            d = first_diff(strip_cv_types(got), strip_cv_types(cmp_exp))
            if d is None:
                case.setdefault("_notes", []).append("stale_cv_type")
        if d:
            comp = diff_component(d)
            which = "final" if last else "partial"
            sub = ""
            if comp == "params":
                gp, ep = got["params"], cmp_exp["params"]
                if len(gp) == len(ep) and all(g[:3] == e[:3] for g, e in zip(gp, ep)):
                    sub = ".from_comptime_arg"
                elif len(gp) == len(ep) and all(g[:2] == e[:2] for g, e in zip(gp, ep)):
                    sub = ".bound_type"
            return (f"law.{which}.{comp}{sub}", f"step {k} inst={inst}: {d}")
        # fold this step into the composite
        total = compose(total, inst) if k else list(inst)
        cur, cur_params, cur_inputs, cur_output, cur_ct = nxt, exp["params"], exp["inputs"], exp["output"], exp["comptime"]

    # --- composition: one step with the composite instantiation
    try:
        one = F.instantiate([W.RA(a) for a in total])
    except Exception as e:  # noqa: BLE001
        return (f"law.raises.onestep.{type(e).__name__}", f"{total}: {e!r}")
    if len(steps) > 1:
        if one != cur:
            d = first_diff(W.MF(cur), W.MF(one))
            return ("law.compose.neq", f"steps {steps} vs one step {total}: {d or 'objects differ (==) but mirrors agree'}")
    exp1 = expected(params, inputs, output, total, comptime_of(params))
    got1 = W.MF(one)
    d = first_diff(got1, exp1)
    if d and not strict_cv_types:
        d = first_diff(strip_cv_types(got1), strip_cv_types(exp1))
    if d:
        return (f"law.onestep.{diff_component(d)}", f"inst={total}: {d}")
    return None


# ------------------------------------------------------------------ generators
def law_cases():
    """Hypothesis strategy for law-level cases (JSON-able dicts)."""
    from hypothesis import strategies as st

    base = [("int",), ("nat",), ("float",), ("bool",), ("none",)]
    valty = [("int",), ("nat",), ("float",), ("bool",), ("tup", (("int",), ("bool",)))]

    def value_of(draw, t):
        h = t[0]
        if h == "nat":
            return draw(st.sampled_from([0, 1, 2, 3, 5, 2**64 - 1]))
        if h == "int":
            return draw(st.sampled_from([-3, -1, 0, 1, 4, 2**63 - 1]))
        if h == "bool":
            return draw(st.booleans())
        if h == "float":
            return draw(st.sampled_from([1.5, -0.25, 0.0, 3.0]))
        if h == "tup":
            return tuple(value_of(draw, x) for x in t[1])
        return None

    @st.composite
    def closed_type(draw, depth=2, copyable=False):
        opts = ["base", "base"]
        if depth > 0:
            opts += ["tup", "fn"] + ([] if copyable else ["arr", "SA"])
        k = draw(st.sampled_from(opts))
        if k == "base":
            return draw(st.sampled_from(base))
        if k == "tup":
            return ("tup", tuple(draw(st.lists(closed_type(depth - 1, copyable), min_size=0, max_size=3))))
        if k == "fn":
            ins = draw(st.lists(st.tuples(st.sampled_from(["", "", "o", "b"]), closed_type(depth - 1)), max_size=2))
            return ("fn", tuple(ins), draw(closed_type(depth - 1)))
        n = ("c", ("nat",), draw(st.integers(0, 4)))
        if k == "arr":
            return ("arr", draw(closed_type(depth - 1)), n)
        return ("SA", draw(closed_type(depth - 1)), n)

    @st.composite
    def case(draw):
        m = draw(st.sampled_from([1, 2, 3, 3, 4, 4, 5, 5]))
        params = []
        for i in range(m):
            tps = [j for j, p in enumerate(params) if p[0] == "tp" and p[2] and p[3]]
            kind = draw(st.sampled_from(["tp", "tp", "nat", "nat", "nonnat"] + (["dep", "dep", "dep"] if tps else ["nat"])))
            if kind == "tp":
                cd = draw(st.sampled_from([(True, True), (True, True), (False, False), (True, False), (False, True)]))
                params.append(("tp", f"T{i}", cd[0], cd[1]))
                continue
            if kind == "nat":
                t = ("nat",)
            elif kind == "nonnat":
                t = draw(st.sampled_from([("int",), ("bool",), ("float",)]))
            else:
                j = draw(st.sampled_from(tps))
                v = ("tv", j, params[j][1], True, True)
                t = draw(st.sampled_from([v, v, ("tup", (v, v)), ("tup", (("nat",), v))]))
            params.append(("cp", f"c{i}", t, draw(st.booleans())))

        def var_of(i):
            p = params[i]
            if p[0] == "tp":
                return ("tv", i, p[1], p[2], p[3])
            return ("cv", i, p[1], p[2])

        tvars = [i for i, p in enumerate(params) if p[0] == "tp"]
        nats = [i for i, p in enumerate(params) if p[0] == "cp" and p[2] == ("nat",)]
        bools = [i for i, p in enumerate(params) if p[0] == "cp" and p[2] == ("bool",)]
        deps = [i for i, p in enumerate(params) if p[0] == "cp" and p[2][0] == "tv"]
        others = [i for i, p in enumerate(params) if p[0] == "cp" and p[2][0] in ("int", "float")]

        def nat_const(draw):
            if nats and draw(st.integers(0, 3)):
                return var_of(draw(st.sampled_from(nats)))
            return ("c", ("nat",), draw(st.integers(0, 4)))

        @st.composite
        def body_type(draw, depth):
            opts = ["base"]
            if tvars:
                opts += ["tv", "tv", "tv"]
            if depth > 0:
                opts += ["tup", "tup", "arr", "arr", "fn", "SA"]
                if bools:
                    opts += ["SB"]
                if deps or others:
                    opts += ["SD"]
            k = draw(st.sampled_from(opts))
            if k == "base":
                return draw(st.sampled_from(base))
            if k == "tv":
                return var_of(draw(st.sampled_from(tvars)))
            if k == "tup":
                return ("tup", tuple(draw(st.lists(body_type(depth - 1), min_size=1, max_size=3))))
            if k == "arr":
                return ("arr", draw(body_type(depth - 1)), nat_const(draw))
            if k == "SA":
                return ("SA", draw(body_type(depth - 1)), nat_const(draw))
            if k == "SB":
                return ("SB", var_of(draw(st.sampled_from(bools))))
            if k == "SD":
                i = draw(st.sampled_from(deps + others))
                return ("SD", params[i][2], var_of(i))
            ins = draw(st.lists(st.tuples(st.sampled_from(["", "", "o", "b"]), body_type(depth - 1)), max_size=3))
            return ("fn", tuple(ins), draw(body_type(depth - 1)))

        depth = draw(st.sampled_from([1, 2, 2, 3]))
        n_in = draw(st.integers(0, 3))
        inputs = []
        for k in range(n_in):
            inputs.append((draw(st.sampled_from(["", "", "o", "b"])), f"a{k}", draw(body_type(depth))))
        # comptime parameters come from comptime inputs: add the input at a drawn position
        for i, p in enumerate(params):
            if p[0] == "cp" and p[3]:
                pos = draw(st.integers(0, len(inputs)))
                inputs.insert(pos, ("c", p[1], p[2]))
        output = draw(body_type(depth))

        # ---- instantiation steps over the current parameter list
        def draw_inst(cur_params, full, allow_open):
            inst = []
            for i, p in enumerate(cur_params):
                keep = (not full) and draw(st.booleans())
                if p[0] == "tp":
                    if keep:
                        inst.append(None)
                        continue
                    has_dep = any(q[0] == "cp" and i in [v for v, _ in var_depths(q[2])] for q in cur_params)
                    if has_dep:
                        if full and allow_open and draw(st.integers(0, 3)) == 0:
                            inst.append(("T", ("tv", draw(st.integers(0, 3)), "Outer", True, True)))
                        else:
                            inst.append(("T", draw(st.sampled_from(valty))))
                    elif full and allow_open and draw(st.integers(0, 2)) == 0:
                        o = draw(st.sampled_from(["tv", "ev"]))
                        if o == "tv":
                            inst.append(("T", ("tv", draw(st.integers(0, 3)), "Outer", p[2], p[3])))
                        else:
                            inst.append(("T", ("ev", 7000 + draw(st.integers(0, 3)), "?e", p[2], p[3])))
                    else:
                        inst.append(("T", draw(closed_type(2, copyable=p[2]))))
                    continue
                # const parameter: its type under the arguments chosen so far (later entries
                # cannot be referenced: a const type only mentions earlier parameters)
                t = msub(p[2], inst + [None] * (len(cur_params) - len(inst)))
                open_vars = var_depths(t)
                if keep or (open_vars and not full):
                    inst.append(None)
                    continue
                if open_vars or (full and allow_open and draw(st.integers(0, 3)) == 0):
                    # refers to the enclosing scope: an outer const variable of that type
                    if t == ("nat",) and draw(st.booleans()):
                        inst.append(("C", ("ecv", 7100 + draw(st.integers(0, 2)), "?n")))
                    else:
                        inst.append(("C", ("cv", draw(st.integers(0, 3)), "outer", t)))
                    continue
                v = value_of(draw, t)
                if v is None and t[0] != "none":
                    # type without literal values in this model (function/array...): keep a closed dummy
                    inst.append(("C", ("c", t, 0)))
                else:
                    inst.append(("C", ("c", t, v)))
            return inst

        steps = []
        cur = params
        n_partial = draw(st.sampled_from([1, 1, 1, 2]))
        for _ in range(n_partial):
            inst = draw_inst(cur, full=False, allow_open=False)
            steps.append(inst)
            cur = remaining_params(cur, inst)
        steps.append(draw_inst(cur, full=True, allow_open=draw(st.booleans())))
        return {"params": jt(tuple(params)), "inputs": jt(tuple(inputs)), "output": jt(output),
                "steps": [[None if a is None else jt(a) for a in s] for s in steps]}

    return case()


def classify(case):
    """labels + non-triviality of a law case"""
    params = [tt(p) for p in case["params"]]
    first = case["steps"][0]
    kinds = set()
    for p in params:
        if p[0] == "tp":
            kinds.add("type")
        elif p[3]:
            kinds.add("comptime")
        elif p[2] == ("nat",):
            kinds.add("nat")
        else:
            kinds.add("const")
    inst_before_rem = any(a is not None and any(b is None for b in first[i + 1:]) for i, a in enumerate(first))
    nontrivial = len(params) >= 3 and len(kinds) >= 2 and inst_before_rem
    labels = ["law", f"law.params:{len(params)}"] + [f"law.kind:{k}" for k in sorted(kinds)]
    if inst_before_rem:
        labels.append("law.shift")
    if any(p[0] == "cp" and var_depths(p[2]) for p in params):
        labels.append("law.dependent_const")
        if any(p[0] == "cp" and var_depths(p[2]) and a is None and any(
                first[v] is not None for v, _ in var_depths(p[2])) for p, a in zip(params, first)):
            labels.append("law.bound_instantiated")
    body = [tt(t) for _, _, t in case["inputs"]] + [tt(case["output"])]
    vd = [d for t in body for _, d in var_depths(t)]
    if vd and max(vd) >= 2:
        labels.append("law.nested>=2")
    hs = set().union(*(heads(t) for t in body))
    for h, lab in (("fn", "law.fn"), ("arr", "law.array"), ("SA", "law.struct"), ("SB", "law.struct"),
                   ("SD", "law.struct_dep")):
        if h in hs and lab not in labels:
            labels.append(lab)
    if len(case["steps"]) > 2:
        labels.append("law.three_steps")
    last = case["steps"][-1]
    if any(a is not None and {"tv", "cv", "ev", "ecv"} & heads(tt(a[1])) for a in last):
        labels.append("law.open_final")
    return nontrivial, labels
